(* C01 at stream level: what the reader makes of what the writer wrote. *)
From Coq Require Import List Bool NArith ZArith Lia.
From Coq Require Import Init.Byte.
From FR Require Import Bytes Msgpack Msgpack_proofs Packer Stream Packer_proofs Values_proofs Stream_proofs.
Import ListNotations.
Open Scope Z_scope.

Section Roundtrip.
Variable c : cfg.
Variable HASH : desc -> Z.
Variable depth : nat.

(* the configuration is sane: ext type fits a byte, sub-types pairwise distinct, magic short *)
Definition cfg_good : bool :=
  cfg_ok c &&
  negb (SUB_DESC c =? SUB_RECORD c) && negb (SUB_GROUPED c =? SUB_RECORD c) && negb (SUB_GROUPED c =? SUB_DESC c) &&
  negb (SUB_RECORD c =? SUB_VARINT c) && negb (SUB_DESC c =? SUB_VARINT c) && negb (SUB_GROUPED c =? SUB_VARINT c) &&
  (blen (MAGIC c) <? 256)%N && (1 <=? blen (MAGIC c))%N.

Definition body_ok (x : xv) : bool :=
  xv_ok c x && mv_wf (lower c x) && (blen (enc (lower c x)) <? 2 ^ 32)%N && Nat.ltb (xdepth x) depth.

Lemma decode_body_of reg x : cfg_ok c = true -> body_ok x = true ->
  decode_body c depth reg (body_of c x) = interpret c depth reg x.
Proof.
  intros Hc H. unfold body_ok in H. apply andb_prop in H. destruct H as [H Hd]. apply andb_prop in H. destruct H as [H _].
  apply andb_prop in H. destruct H as [Hok Hwf]. apply Nat.ltb_lt in Hd.
  unfold decode_body, body_of. rewrite (unpackb_enc _ Hwf). rewrite (raise_lower c Hc x Hok depth Hd). reflexivity.
Qed.

Lemma body_small x : body_ok x = true -> small (body_of c x).
Proof.
  unfold body_ok. intros H. apply andb_prop in H. destruct H as [H _]. apply andb_prop in H. destruct H as [_ H].
  apply N.ltb_lt in H. exact H.
Qed.

(* ---- descriptors ---- *)
Lemma unpack_desc_pack d : unpack_desc (XArr [XStr (d_name d); XArr (map (fun f => XArr [XStr (fst f); XStr (snd f)]) (d_fields d))]) = Some d.
Proof.
  destruct d as [n fs]. cbn [unpack_desc d_name d_fields]. rewrite map_map.
  rewrite (all_some_map' _ (fun f => f)).
  - rewrite map_id. reflexivity.
  - apply Forall_forall. intros [t nm] _. reflexivity.
Qed.

Lemma interpret_desc reg d : cfg_good = true -> interpret c depth reg (pack_desc c d) = ODesc d.
Proof.
  intros G. unfold pack_desc. cbn [interpret]. rewrite Z.eqb_refl. rewrite unpack_desc_pack. reflexivity.
Qed.

(* ---- items ---- *)
Definition member_okb (reg : registry) (r : rec) : bool :=
  rec_okb c HASH reg r && Nat.ltb (rdepth r) depth.

Definition item_okb (reg : registry) (it : item) : bool :=
  match it with
  | IRec r => rec_okb c HASH reg r && Nat.ltb (rdepth r) depth
  | IGroup _ ms => forallb (member_okb reg) ms
  end.

Lemma cfg_good_inv : cfg_good = true ->
  cfg_ok c = true /\ (SUB_DESC c =? SUB_RECORD c) = false /\ (SUB_GROUPED c =? SUB_RECORD c) = false /\
  (SUB_GROUPED c =? SUB_DESC c) = false /\ (blen (MAGIC c) < 256)%N /\ (1 <= blen (MAGIC c))%N.
Proof.
  unfold cfg_good. intros H.
  repeat match type of H with (_ && _) = true => apply andb_prop in H; let H2 := fresh "G" in destruct H as [H H2] end.
  repeat match goal with X : negb _ = true |- _ => apply negb_true_iff in X end.
  apply N.ltb_lt in G0. apply N.leb_le in G.
  repeat split; assumption.
Qed.

Lemma member_roundtrip reg r : member_okb reg r = true ->
  unpack_member c depth reg (pack_member c HASH r) = Some r.
Proof.
  unfold member_okb. intros H. apply andb_prop in H. destruct H as [Hok Hd]. apply Nat.ltb_lt in Hd.
  destruct r as [d vals]. rewrite rec_okb_unfold in Hok. apply andb_prop in Hok. destruct Hok as [Hok Hver].
  apply andb_prop in Hok. destruct Hok as [Hreg Hzip].
  destruct (reg_find reg (d_name d) (HASH d)) as [d'|] eqn:Ef; [|discriminate]. apply desc_eqb_eq in Hreg. subst d'.
  pose proof (zip_ok_length c HASH reg _ _ Hzip) as Hlen.
  assert (Hne : vals <> []) by (intros ->; cbn in Hver; discriminate).
  rewrite rdepth_rec in Hd.
  unfold pack_member, pack_vals, xident. cbn [unpack_member lookup_ident]. rewrite Ef.
  assert (Hfit : fit false (List.length (field_types d)) (map (pack_f c HASH) vals) = Some (map (pack_f c HASH) vals)).
  { unfold fit. rewrite map_length, Hlen, Nat.ltb_irrefl, Nat.sub_diag. cbn [repeat]. rewrite app_nil_r. reflexivity. }
  rewrite Hfit.
  assert (HP : Forall (Pv c HASH) vals) by (apply Forall_forall; intros v _; apply field_roundtrip).
  rewrite (zip_roundtrip c HASH reg depth vals (field_types d) HP Hzip) by lia.
  rewrite set_last_id; [reflexivity|exact Hne|].
  destruct (last vals FNone) as [| |z| | | | | | | | | | |]; try discriminate. apply Z.eqb_eq in Hver. subst. reflexivity.
Qed.

Lemma interpret_item reg it : cfg_good = true -> item_okb reg it = true ->
  interpret c depth reg (pack_item c HASH it) = OItem it.
Proof.
  intros G Hok. destruct (cfg_good_inv G) as (_ & E1 & E2 & E3 & _).
  destruct it as [r|name ms]; cbn [pack_item item_okb] in *.
  - apply andb_prop in Hok. destruct Hok as [Hr Hd]. apply Nat.ltb_lt in Hd.
    destruct r as [d vals]. rewrite pack_rec_eq. cbn [interpret].
    rewrite Z.eqb_sym, E1, Z.eqb_refl. rewrite <- (pack_rec_eq c HASH).
    rewrite (record_roundtrip c HASH (Rec d vals) reg depth Hr Hd). reflexivity.
  - cbn [interpret]. rewrite E3, E2, Z.eqb_refl. rewrite map_map.
    rewrite (all_some_map' _ (fun r => r)).
    + rewrite map_id. reflexivity.
    + rewrite forallb_forall in Hok. apply Forall_forall. intros r Hr. apply member_roundtrip. apply Hok. exact Hr.
Qed.

(* ---- the writer's bodies, read back ---- *)
Definition descs_ok (ds : list desc) : bool := forallb (fun d => body_ok (pack_desc c d)) ds.

Lemma run_desc_bodies k : cfg_good = true -> forall ds reg, descs_ok ds = true ->
  forall rest,
  run_bodies c HASH depth reg (map (fun d => body_of c (pack_desc c d)) ds ++ rest) k =
  run_bodies c HASH depth (fold_left (reg_add HASH) ds reg) rest k.
Proof.
  intros G. destruct (cfg_good_inv G) as (Hc & _).
  induction ds as [|d ds IH]; intros reg Hok rest; [reflexivity|].
  cbn [descs_ok forallb] in Hok. apply andb_prop in Hok. destruct Hok as [Hd Hds].
  cbn [map app run_bodies fold_left]. rewrite (decode_body_of reg _ Hc Hd), (interpret_desc reg d G).
  apply IH. exact Hds.
Qed.

(* ---- the writer's registry evolution: what it emits is what it registers, in order ---- *)
Definition Ext (acc acc' : list desc * registry) : Prop :=
  exists new, fst acc' = fst acc ++ new /\ snd acc' = fold_left (reg_add HASH) new (snd acc).

Lemma Ext_refl acc : Ext acc acc.
Proof. exists []. split; [rewrite app_nil_r; reflexivity|reflexivity]. Qed.
Lemma Ext_trans a b d : Ext a b -> Ext b d -> Ext a d.
Proof.
  intros (n1 & F1 & S1) (n2 & F2 & S2). exists (n1 ++ n2). split.
  - rewrite F2, F1, app_assoc. reflexivity.
  - rewrite S2, S1, fold_left_app. reflexivity.
Qed.

Lemma Ext_visit_desc acc d : Ext acc (visit_desc c HASH acc d).
Proof.
  destruct acc as [out reg]. unfold visit_desc. destruct (known c HASH reg d).
  - apply Ext_refl.
  - exists [d]. split; reflexivity.
Qed.

Lemma Ext_fold {A} (f : list desc * registry -> A -> list desc * registry) :
  (forall acc a, Ext acc (f acc a)) -> forall l acc, Ext acc (fold_left f l acc).
Proof.
  intros Hf. induction l as [|a t IH]; intros acc; [apply Ext_refl|].
  cbn [fold_left]. eapply Ext_trans; [apply Hf|apply IH].
Qed.

Definition go_visit := fix go (acc : list desc * registry) (l : list fval) :=
  match l with [] => acc | a :: t => go (visit_f c HASH acc a) t end.

Lemma Ext_go l : Forall (fun v => forall acc, Ext acc (visit_f c HASH acc v)) l -> forall acc, Ext acc (go_visit acc l).
Proof.
  induction 1 as [|a t Ha _ IH]; intros acc; [apply Ext_refl|].
  cbn [go_visit]. eapply Ext_trans; [apply Ha|apply IH].
Qed.

Lemma Ext_visit_f : forall v acc, Ext acc (visit_f c HASH acc v).
Proof.
  apply (fval_ind' (fun v => forall acc, Ext acc (visit_f c HASH acc v))
                   (fun r => forall acc, Ext acc (visit_rec c HASH acc r))); intros; try apply Ext_refl.
  - (* FList *) cbn [visit_f]. fold go_visit. apply Ext_go. assumption.
  - (* FRec *) cbn [visit_f]. apply H.
  - (* Rec *) cbn [visit_rec]. fold go_visit. eapply Ext_trans; [apply Ext_visit_desc|apply Ext_go; assumption].
Qed.

Lemma Ext_visit_rec r acc : Ext acc (visit_rec c HASH acc r).
Proof. exact (Ext_visit_f (FRec r) acc). Qed.

Lemma visit_item_reg reg it :
  snd (visit_item c HASH reg it) = fold_left (reg_add HASH) (fst (visit_item c HASH reg it)) reg.
Proof.
  assert (E : Ext ([], reg) (visit_item c HASH reg it)).
  { destruct it as [r|name ms]; cbn [visit_item].
    - apply Ext_visit_rec.
    - apply Ext_trans with (fold_left (visit_desc c HASH) (map rec_desc ms) ([], reg)).
      + apply (Ext_fold (visit_desc c HASH)). apply Ext_visit_desc.
      + apply (Ext_fold (fun acc r => fold_left (visit_f c HASH) (rec_vals r) acc)).
        intros acc r. apply (Ext_fold (visit_f c HASH)). intros acc' v. apply Ext_visit_f. }
  destruct E as (new & F & S). cbn [fst snd app] in *. rewrite S, F. reflexivity.
Qed.

(* ---- hypotheses of the round trip, as one executable predicate on the sequence ---- *)
Fixpoint stream_okb (reg : registry) (items : list item) : bool :=
  match items with
  | [] => true
  | it :: t =>
      let v := visit_item c HASH reg it in
      descs_ok (fst v) && body_ok (pack_item c HASH it) && item_okb (snd v) it && stream_okb (snd v) t
  end.

Definition st_of (reg : registry) : wstate := {| w_header := true; w_reg := reg |}.

Lemma write_bodies_hdr reg it :
  write_bodies c HASH (st_of reg) it =
  (st_of (snd (visit_item c HASH reg it)),
   map (fun d => body_of c (pack_desc c d)) (fst (visit_item c HASH reg it)) ++ [body_of c (pack_item c HASH it)]).
Proof.
  unfold write_bodies, st_of. cbn [w_header w_reg]. destruct (visit_item c HASH reg it) as [ds reg']. reflexivity.
Qed.

Lemma run_written : cfg_good = true -> forall items reg, stream_okb reg items = true ->
  run_bodies c HASH depth reg (write_all_bodies c HASH (st_of reg) items) (fun _ => ([], CleanEOF)) =
  (map RItem items, CleanEOF).
Proof.
  intros G. destruct (cfg_good_inv G) as (Hc & _).
  induction items as [|it t IH]; intros reg Hok; [reflexivity|].
  cbn [stream_okb] in Hok. apply andb_prop in Hok. destruct Hok as [Hok Ht]. apply andb_prop in Hok. destruct Hok as [Hok Hit].
  apply andb_prop in Hok. destruct Hok as [Hds Hb].
  cbn [write_all_bodies]. rewrite write_bodies_hdr. rewrite <- app_assoc. cbn [app].
  rewrite (run_desc_bodies _ G _ reg Hds). rewrite <- visit_item_reg.
  cbn [run_bodies]. rewrite (decode_body_of _ _ Hc Hb), (interpret_item _ it G Hit).
  rewrite (IH _ Ht). reflexivity.
Qed.

Lemma bodies_small : forall items reg, stream_okb reg items = true ->
  Forall small (write_all_bodies c HASH (st_of reg) items).
Proof.
  induction items as [|it t IH]; intros reg Hok; [constructor|].
  cbn [stream_okb] in Hok. apply andb_prop in Hok. destruct Hok as [Hok Ht]. apply andb_prop in Hok. destruct Hok as [Hok Hit].
  apply andb_prop in Hok. destruct Hok as [Hds Hb].
  cbn [write_all_bodies]. rewrite write_bodies_hdr. apply Forall_app. split; [apply Forall_app; split|].
  - unfold descs_ok in Hds. rewrite forallb_forall in Hds. apply Forall_forall. intros b Hin.
    apply in_map_iff in Hin. destruct Hin as (d & <- & Hd). apply body_small. apply Hds. exact Hd.
  - constructor; [apply body_small; exact Hb|constructor].
  - apply IH. exact Ht.
Qed.

(* ---- header ---- *)
Lemma header_body_eq : (blen (MAGIC c) < 256)%N ->
  header_body c = xc4 :: be 1 (blen (MAGIC c)) ++ MAGIC c.
Proof.
  intros H. unfold header_body, body_of. cbn [lower enc]. unfold bin_hdr.
  destruct (N.ltb_spec (blen (MAGIC c)) (2 ^ 8)) as [_|H']; [reflexivity|]. change (2 ^ 8)%N with 256%N in H'. lia.
Qed.

Lemma read_header_frame rest : cfg_good = true ->
  read_header c (frame (header_body c) ++ rest) = Some rest.
Proof.
  intros G. destruct (cfg_good_inv G) as (_ & _ & _ & _ & Hm & _).
  unfold read_header.
  assert (L : List.length (frame (header_body c)) = header_len c).
  { unfold frame, header_len. rewrite header_body_eq by exact Hm. rewrite app_length, be_length. cbn [List.length].
    rewrite app_length, be_length. lia. }
  rewrite (firstn_app_len _ rest _ L), (skipn_app_len _ rest _ L).
  unfold is_suffix, frame. rewrite header_body_eq by exact Hm.
  replace (be 4 (blen (xc4 :: be 1 (blen (MAGIC c)) ++ MAGIC c)) ++ xc4 :: be 1 (blen (MAGIC c)) ++ MAGIC c)
    with ((be 4 (blen (xc4 :: be 1 (blen (MAGIC c)) ++ MAGIC c)) ++ xc4 :: be 1 (blen (MAGIC c))) ++ MAGIC c)
    by (rewrite <- app_assoc; reflexivity).
  rewrite rev_app_distr, is_prefix_app. reflexivity.
Qed.

Lemma write_all_first it t :
  write_all_bodies c HASH w_init (it :: t) = header_body c :: write_all_bodies c HASH (st_of []) (it :: t).
Proof.
  cbn [write_all_bodies]. unfold write_bodies, w_init, st_of. cbn [w_header w_reg].
  destruct (visit_item c HASH [] it) as [ds reg']. reflexivity.
Qed.

(* C01: every sequence satisfying the (executable) side conditions is read back exactly, in order, with a clean end *)
Theorem stream_roundtrip items : cfg_good = true -> stream_okb [] items = true ->
  read_stream c HASH depth (write_stream c HASH items) = Read (map RItem items) CleanEOF.
Proof.
  intros G Hok. unfold read_stream, write_stream.
  destruct items as [|it t].
  - replace (frame (header_body c)) with (frame (header_body c) ++ []) by apply app_nil_r.
    rewrite (read_header_frame [] G). reflexivity.
  - rewrite write_all_first, frames_cons. rewrite (read_header_frame _ G).
    set (bodies := write_all_bodies c HASH (st_of []) (it :: t)).
    pose proof (bodies_small (it :: t) [] Hok) as Hsm. fold bodies in Hsm.
    pose proof (frames_length bodies) as HL.
    rewrite <- (app_nil_r (frames bodies)) at 2.
    rewrite (read_loop_frames c HASH depth bodies [] [] (S (List.length (frames bodies))) 1 Hsm ltac:(lia)).
    + rewrite (run_bodies_ext c HASH depth bodies [] _ (fun _ => ([], CleanEOF))).
      * unfold bodies. rewrite (run_written G (it :: t) [] Hok). reflexivity.
      * intros reg'. replace (S (List.length (frames bodies)) - List.length bodies)%nat
          with (S (List.length (frames bodies) - List.length bodies)) by lia. reflexivity.
    + intros reg'. replace (S (List.length (frames bodies)) - List.length bodies)%nat
        with (S (List.length (frames bodies) - List.length bodies)) by lia. reflexivity.
Qed.

End Roundtrip.
