(* concrete witness for C04: a lost descriptor frame whose identifier an earlier, different definition shares *)
From Coq Require Import List Bool NArith ZArith String.
From Coq Require Import Init.Byte.
Import ListNotations.
From FR Require Import Bytes Msgpack Packer Stream Observe Gen_packer Stream_proofs Cut_proofs Lost_proofs.
Open Scope Z_scope.

Definition dL1 := Desc (B "t/c") [(B "string", B "a"); (B "string", B "bstringc")].
Definition dL2 := Desc (B "t/c") [(B "string", B "astringb"); (B "string", B "c")].
Definition lost_hash (d : desc) : Z := 7.
Definition gL := FDt (DtTuple 2020 1 1 0 0 0 0).
Definition rL1 := Rec dL1 [FStr (B "x"); FStr (B "y"); FNone; FNone; gL; FInt 1].
Definition rL2 := Rec dL2 [FStr (B "p"); FStr (B "q"); FNone; FNone; gL; FInt 1].
Definition lost_bodies := write_all_bodies the_cfg lost_hash (w_init) [IRec rL1; IRec rL2].
(* the second record as the reader yields it without its definition: dL1's field names around rL2's values *)
Definition rL2_misread := Rec dL1 [FStr (B "p"); FStr (B "q"); FNone; FNone; gL; FInt 1].
Lemma lost_descriptor_coincident_witness :
  List.length lost_bodies = 5%nat /\
  fst (run_bodies the_cfg lost_hash 12 [] lost_bodies (fun _ => ([], CleanEOF))) = [RItem (IRec rL1); RItem (IRec rL2)] /\
  fst (run_bodies the_cfg lost_hash 12 [] (firstn 3 lost_bodies ++ skipn 4 lost_bodies) (fun _ => ([], CleanEOF)))
    = [RItem (IRec rL1); RItem (IRec rL2_misread)].
Proof. vm_compute. repeat split; reflexivity. Qed.
