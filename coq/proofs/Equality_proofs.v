(* Proofs about model/Equality.v: what Record.__eq__ decides, that it is total, reflexive and symmetric, that
   every record is hashable, that equal records have equal hashes, and that the scoped override of the ignore
   set is undone. *)
From Coq Require Import List Bool String ZArith NArith Lia.
Import ListNotations.
From FR Require Import Equality.
Open Scope list_scope.

(* ---------- induction principle for the nested inductive ---------- *)
Section PvalInd.
Variable P : pval -> Prop.
Hypothesis Hnone : P PNone.
Hypothesis Hbool : forall b, P (PBool b).
Hypothesis Hint : forall z, P (PInt z).
Hypothesis Hfloat : forall f o, P (PFloat f o).
Hypothesis Hstr : forall s, P (PStr s).
Hypothesis Hbytes : forall s, P (PBytes s).
Hypothesis Hdt : forall n o t e, P (PDt n o t e).
Hypothesis Htuple : forall l, Forall P l -> P (PTuple l).
Hypothesis Hlist : forall l, Forall P l -> P (PList l).
Hypothesis Hdict : forall d, Forall (fun kv => P (snd kv)) d -> P (PDict d).
Hypothesis Hrec : forall n f vs, Forall P vs -> P (PRec n f vs).
Hypothesis Hgrp : forall n ms, Forall P ms -> P (PGrp n ms).
Hypothesis Hfset : forall l, Forall P l -> P (PFset l).
Fixpoint pval_ind' (v : pval) : P v :=
  let go := fix go (l : list pval) : Forall P l :=
    match l with [] => Forall_nil _ | x :: t => Forall_cons x (pval_ind' x) (go t) end in
  match v with
  | PNone => Hnone | PBool b => Hbool b | PInt z => Hint z | PFloat f o => Hfloat f o
  | PStr s => Hstr s | PBytes s => Hbytes s | PDt n o t e => Hdt n o t e
  | PTuple l => Htuple l (go l)
  | PList l => Hlist l (go l)
  | PDict d => Hdict d ((fix god (d : list (string * pval)) : Forall (fun kv => P (snd kv)) d :=
                           match d with
                           | [] => Forall_nil _
                           | kv :: t => Forall_cons kv (pval_ind' (snd kv)) (god t)
                           end) d)
  | PRec n f vs => Hrec n f vs (go vs)
  | PGrp n ms => Hgrp n ms (go ms)
  | PFset l => Hfset l (go l)
  end.
End PvalInd.

(* ---------- all2 ---------- *)
Lemma all2_Forall2 {A B} (f : A -> B -> bool) l1 l2 :
  all2 f l1 l2 = true <-> Forall2 (fun a b => f a b = true) l1 l2.
Proof.
  revert l2. induction l1 as [|x t IH]; intros [|y u]; cbn; split; intros Hx; try discriminate; try constructor;
    try (inversion Hx; fail).
  - apply andb_prop in Hx. tauto.
  - apply andb_prop in Hx. apply IH. tauto.
  - inversion Hx; subst. apply andb_true_intro. split; [assumption|apply IH; assumption].
Qed.

Lemma all2_sym {A B} (f : A -> B -> bool) (g : B -> A -> bool) l1 l2 :
  (forall x y, In x l1 -> In y l2 -> f x y = g y x) -> all2 f l1 l2 = all2 g l2 l1.
Proof.
  revert l2. induction l1 as [|x t IH]; intros [|y u] Hxy; cbn; try reflexivity.
  rewrite (Hxy x y) by (left; reflexivity). f_equal. apply IH. intros; apply Hxy; right; assumption.
Qed.

Lemma all2_map {A B A' B'} (f : A -> B -> bool) (g : A' -> B' -> bool) (k1 : A -> A') (k2 : B -> B') l1 l2 :
  (forall x y, In x l1 -> In y l2 -> f x y = true -> g (k1 x) (k2 y) = true) ->
  all2 f l1 l2 = true -> all2 g (map k1 l1) (map k2 l2) = true.
Proof.
  revert l2. induction l1 as [|x t IH]; intros [|y u] Hxy Hall; cbn in *; try discriminate; try reflexivity.
  apply andb_prop in Hall. destruct Hall as [H1 H2]. apply andb_true_intro. split.
  - apply Hxy; [left; reflexivity|left; reflexivity|exact H1].
  - apply IH; [|exact H2]. intros; apply Hxy; try (right; assumption); assumption.
Qed.

Lemma all2_refl {A} (f : A -> A -> bool) l : (forall x, In x l -> f x x = true) -> all2 f l l = true.
Proof.
  induction l as [|x t IH]; intros Hx; cbn; [reflexivity|].
  rewrite Hx by (left; reflexivity). apply IH. intros; apply Hx; right; assumption.
Qed.

(* ---------- strings, membership, lookup ---------- *)
Lemma mem_In n l : mem n l = true <-> In n l.
Proof.
  unfold mem. rewrite existsb_exists. split.
  - intros [x [Hin Heq]]. apply String.eqb_eq in Heq. subst. exact Hin.
  - intros Hin. exists n. split; [exact Hin|apply String.eqb_refl].
Qed.

Lemma nodupb_NoDup l : nodupb l = true -> NoDup l.
Proof.
  induction l as [|x t IH]; cbn; intros Hn; [constructor|].
  apply andb_prop in Hn. destruct Hn as [H1 H2]. constructor; [|apply IH; exact H2].
  intros Hin. apply mem_In in Hin. rewrite Hin in H1. discriminate.
Qed.

Lemma lookup_some_in {A} k (d : list (string * A)) w : lookup k d = Some w -> In (k, w) d.
Proof.
  induction d as [|[k' v] t IH]; cbn; intros Hl; [discriminate|].
  destruct (String.eqb k k') eqn:E.
  - apply String.eqb_eq in E. inversion Hl; subst. left; reflexivity.
  - right. apply IH. exact Hl.
Qed.

Lemma lookup_nodup_in {A} (d : list (string * A)) kv :
  NoDup (map fst d) -> In kv d -> lookup (fst kv) d = Some (snd kv).
Proof.
  induction d as [|[k' v] t IH]; cbn; intros Hnd Hin; [contradiction|].
  inversion Hnd as [|? ? Hnot Hnd']; subst.
  destruct Hin as [Heq|Hin].
  - subst kv. cbn. rewrite String.eqb_refl. reflexivity.
  - destruct (String.eqb (fst kv) k') eqn:E.
    + apply String.eqb_eq in E. exfalso. apply Hnot. rewrite <- E. apply in_map. exact Hin.
    + apply IH; assumption.
Qed.

Lemma lookup_none_notin {A} k (d : list (string * A)) : lookup k d = None -> ~ In k (map fst d).
Proof.
  induction d as [|[k' v] t IH]; cbn; intros Hl; [tauto|].
  destruct (String.eqb k k') eqn:E; [discriminate|].
  intros [Heq|Hin]; [subst; rewrite String.eqb_refl in E; discriminate|]. apply IH; assumption.
Qed.

Lemma all_dict_spec f d2 d1 :
  all_dict f d2 d1 = true <->
  (forall kv, In kv d1 -> exists w, lookup (fst kv) d2 = Some w /\ f (snd kv) w = true).
Proof.
  induction d1 as [|kv t IH]; cbn.
  - split; [intros _ kv []|reflexivity].
  - rewrite andb_true_iff, IH. split.
    + intros [H1 H2] kv' [Heq|Hin]; [subst kv'|apply H2; exact Hin].
      destruct (lookup (fst kv) d2) as [w|]; [|discriminate]. exists w. split; [reflexivity|exact H1].
    + intros Hall. split.
      * destruct (Hall kv (or_introl eq_refl)) as [w [Hl Hf]]. rewrite Hl. exact Hf.
      * intros kv' Hin. apply Hall. right. exact Hin.
Qed.

Lemma bool_eq_iff (a b : bool) : (a = true -> b = true) -> (b = true -> a = true) -> a = b.
Proof. destruct a, b; intros H1 H2; try reflexivity; [symmetry; apply H1; reflexivity|apply H2; reflexivity]. Qed.

(* ---------- descriptors ---------- *)
Lemma fields_eqb_eq f1 f2 : fields_eqb f1 f2 = true <-> f1 = f2.
Proof.
  unfold fields_eqb. rewrite all2_Forall2. split.
  - induction 1 as [|[t1 n1] [t2 n2] l1 l2 Hab _ IH]; [reflexivity|]. cbn in Hab.
    apply andb_prop in Hab. destruct Hab as [Ht Hn]. apply String.eqb_eq in Ht. apply String.eqb_eq in Hn.
    subst. reflexivity.
  - intros <-. induction f1 as [|[t n] l IH]; constructor; [|exact IH]. cbn. rewrite !String.eqb_refl. reflexivity.
Qed.

Lemma fields_eqb_refl f : fields_eqb f f = true.
Proof. apply fields_eqb_eq. reflexivity. Qed.

Lemma fields_eqb_sym f1 f2 : fields_eqb f1 f2 = fields_eqb f2 f1.
Proof.
  apply bool_eq_iff; intros Hx; apply fields_eqb_eq in Hx; subst; apply fields_eqb_refl.
Qed.

(* ---------- kept / fused variants ---------- *)
Section WithFacts.
Variable F : facts.
Variable H : string -> list (string * string) -> Z.

Lemma all2_kept_eq {B} (f : pval -> B -> bool) ign ns vs ks :
  all2_kept F f ign ns vs ks = all2 f (kept F ign ns vs) ks.
Proof.
  revert ns ks. induction vs as [|v vs IH]; intros [|n ns] ks; cbn; try (destruct ks; reflexivity).
  destruct (skip F ign n); [apply IH|]. destruct ks as [|k ks]; cbn; [reflexivity|]. rewrite IH. reflexivity.
Qed.

Lemma map_kept_eq {B} (f : pval -> B) ign ns vs : map_kept F f ign ns vs = map f (kept F ign ns vs).
Proof.
  revert ns. induction vs as [|v vs IH]; intros [|n ns]; cbn; try reflexivity.
  destruct (skip F ign n); [apply IH|]. cbn. rewrite IH. reflexivity.
Qed.

Lemma kept_In ign ns vs x : In x (kept F ign ns vs) -> In x vs.
Proof.
  clear H. revert vs. induction ns as [|n ns IH]; intros [|v vs]; cbn; try tauto.
  destruct (skip F ign n); [intros Hi; right; apply IH; exact Hi|].
  intros [Heq|Hi]; [left; exact Heq|right; apply IH; exact Hi].
Qed.

(* the values that survive are exactly those whose slot name is not in the ignore set *)
Lemma kept_spec ign ns vs : f_skip_before_append F = true ->
  kept F ign ns vs = map snd (filter (fun nv => negb (mem (fst nv) ign)) (combine ns vs)).
Proof.
  intros Hs. revert vs. induction ns as [|n ns IH]; intros [|v vs]; cbn; try reflexivity.
  unfold skip. rewrite Hs. cbn. destruct (mem n ign); cbn; rewrite IH; reflexivity.
Qed.

Lemma kept_nil ns vs : kept F [] ns vs = firstn (List.length ns) vs.
Proof.
  revert vs. induction ns as [|n ns IH]; intros [|v vs]; cbn; try reflexivity.
  unfold skip. cbn. rewrite andb_false_r. rewrite IH. reflexivity.
Qed.

(* ---------- numbers / datetimes ---------- *)
Lemma float_eq_sym a b : float_eq a b = float_eq b a.
Proof.
  unfold float_eq. rewrite (N.eqb_sym a b).
  destruct (is_nan a), (is_nan b), (is_zero a), (is_zero b), (N.eqb b a); reflexivity.
Qed.

Lemma num_eq_sym a b : num_eq a b = num_eq b a.
Proof.
  destruct a, b; cbn; try reflexivity;
    first [ apply Z.eqb_sym
          | (rewrite float_eq_sym, Z.eqb_sym; reflexivity)
          | (destruct b, b0; reflexivity) ].
Qed.

Lemma dt_eq_sym n1 o1 t1 e1 n2 o2 t2 e2 : dt_eq n1 o1 t1 e1 n2 o2 t2 e2 = dt_eq n2 o2 t2 e2 n1 o1 t1 e1.
Proof.
  unfold dt_eq. rewrite (Z.eqb_sym t1 t2). destruct (t2 =? t1)%Z; [apply Z.eqb_sym|].
  rewrite (Z.eqb_sym (n1 - o1) (n2 - o2)), (orb_comm e1 e2). reflexivity.
Qed.

(* ---------- reflexivity ---------- *)
Lemma forallb_In {A} (p : A -> bool) l x : forallb p l = true -> In x l -> p x = true.
Proof. intros Hf Hin. rewrite forallb_forall in Hf. apply Hf. exact Hin. Qed.

Lemma py_eq_refl : forall v, wf v = true -> forall il, py_eq F H il il v v = true.
Proof.
  induction v using pval_ind'; intros Hwf il; cbn [py_eq].
  - reflexivity.
  - cbn. apply Bool.eqb_reflx.
  - cbn. apply Z.eqb_refl.
  - cbn. rewrite Z.eqb_refl. reflexivity.
  - apply String.eqb_refl.
  - apply String.eqb_refl.
  - unfold dt_eq. rewrite !Z.eqb_refl. reflexivity.
  - cbn [wf] in Hwf. apply all2_refl. intros x Hin. rewrite Forall_forall in H0.
    apply H0; [exact Hin|]. exact (forallb_In _ _ _ Hwf Hin).
  - cbn [wf] in Hwf. apply all2_refl. intros x Hin. rewrite Forall_forall in H0.
    apply H0; [exact Hin|]. exact (forallb_In _ _ _ Hwf Hin).
  - cbn [wf] in Hwf. apply andb_prop in Hwf. destruct Hwf as [Hnd Hall].
    rewrite Nat.eqb_refl. cbn. apply all_dict_spec. intros kv Hin. exists (snd kv). split.
    + apply lookup_nodup_in; [apply nodupb_NoDup; exact Hnd|exact Hin].
    + rewrite Forall_forall in H0. apply H0; [exact Hin|]. exact (forallb_In _ _ _ Hall Hin).
  - cbn [wf] in Hwf. rewrite String.eqb_refl, Z.eqb_refl, fields_eqb_refl, orb_true_r. cbn. rewrite all2_kept_eq.
    apply all2_refl. intros x Hin. apply kept_In in Hin. rewrite Forall_forall in H0.
    apply H0; [exact Hin|]. exact (forallb_In _ _ _ Hwf Hin).
  - cbn [wf] in Hwf. rewrite String.eqb_refl. cbn. apply all2_refl. intros x Hin.
    rewrite Forall_forall in H0. apply H0; [exact Hin|]. exact (forallb_In _ _ _ Hwf Hin).
  - discriminate Hwf.
Qed.

(* ---------- symmetry ---------- *)
Lemma dict_eq_half (f g : pval -> pval -> bool) d1 d2 :
  NoDup (map fst d1) -> NoDup (map fst d2) ->
  (forall kv w, In kv d1 -> In w (map snd d2) -> f (snd kv) w = g w (snd kv)) ->
  Nat.eqb (List.length d1) (List.length d2) && all_dict f d2 d1 = true ->
  Nat.eqb (List.length d2) (List.length d1) && all_dict g d1 d2 = true.
Proof.
  intros Hn1 Hn2 Hfg Hlhs. apply andb_prop in Hlhs. destruct Hlhs as [Hlen Hall].
  apply Nat.eqb_eq in Hlen. rewrite <- Hlen, Nat.eqb_refl. cbn.
  rewrite all_dict_spec in Hall. apply all_dict_spec.
  assert (Hincl : incl (map fst d1) (map fst d2)).
  { intros k Hk. apply in_map_iff in Hk. destruct Hk as [kv [Hk Hin]]. subst k.
    destruct (Hall kv Hin) as [w [Hl _]]. apply lookup_some_in in Hl.
    apply in_map_iff. exists (fst kv, w). split; [reflexivity|exact Hl]. }
  assert (Hincl' : incl (map fst d2) (map fst d1)).
  { apply NoDup_length_incl; [exact Hn1| |exact Hincl]. rewrite !map_length. lia. }
  intros kw Hin2.
  assert (Hk : In (fst kw) (map fst d1)) by (apply Hincl'; apply in_map; exact Hin2).
  apply in_map_iff in Hk. destruct Hk as [kv [Hfst Hin1]].
  exists (snd kv). split.
  - rewrite <- Hfst. apply lookup_nodup_in; assumption.
  - destruct (Hall kv Hin1) as [w [Hl Hf]].
    assert (Hw : w = snd kw).
    { rewrite Hfst in Hl. rewrite (lookup_nodup_in d2 kw Hn2 Hin2) in Hl. inversion Hl. reflexivity. }
    subst w. rewrite <- (Hfg kv (snd kw) Hin1); [exact Hf|]. apply in_map. exact Hin2.
Qed.

Lemma py_eq_sym : forall a, wf a = true -> forall y, wf y = true ->
  forall il ir, py_eq F H il ir a y = py_eq F H ir il y a.
Proof.
  induction a using pval_ind'; intros Hwa y Hwb il ir; destruct y; try reflexivity; try discriminate Hwb;
    try discriminate Hwa; try (cbn [py_eq]; apply num_eq_sym).
  - cbn. apply String.eqb_sym.
  - cbn. apply String.eqb_sym.
  - cbn. apply dt_eq_sym.
  - (* tuple *) cbn [py_eq wf] in *. apply all2_sym. intros x y Hx Hy. rewrite Forall_forall in H0.
    apply H0; [exact Hx|exact (forallb_In _ _ _ Hwa Hx)|exact (forallb_In _ _ _ Hwb Hy)].
  - cbn [py_eq wf] in *. apply all2_sym. intros x y Hx Hy. rewrite Forall_forall in H0.
    apply H0; [exact Hx|exact (forallb_In _ _ _ Hwa Hx)|exact (forallb_In _ _ _ Hwb Hy)].
  - (* dict *) cbn [py_eq wf] in *.
    apply andb_prop in Hwa. destruct Hwa as [Hn1 Hw1]. apply andb_prop in Hwb. destruct Hwb as [Hn2 Hw2].
    apply nodupb_NoDup in Hn1. apply nodupb_NoDup in Hn2. rewrite Forall_forall in H0.
    assert (Hfg : forall kv w, In kv d -> In w (map snd kvs) ->
                  py_eq F H il ir (snd kv) w = py_eq F H ir il w (snd kv)).
    { intros kv w Hin Hw. apply in_map_iff in Hw. destruct Hw as [kw [Hw Hinw]]. subst w.
      apply H0; [exact Hin|exact (forallb_In _ _ _ Hw1 Hin)|exact (forallb_In _ _ _ Hw2 Hinw)]. }
    apply bool_eq_iff.
    + apply dict_eq_half; assumption.
    + apply dict_eq_half; try assumption. intros kw v Hinw Hv.
      apply in_map_iff in Hv. destruct Hv as [kv [Hv Hin]]. subst v. symmetry. apply Hfg; [exact Hin|].
      apply in_map. exact Hinw.
  - (* record *) cbn [py_eq wf] in *. rewrite !all2_kept_eq.
    rewrite (String.eqb_sym name n), (Z.eqb_sym (H n f) (H name fields)), (fields_eqb_sym f fields). f_equal.
    apply all2_sym. intros x y Hx Hy. apply kept_In in Hx. apply kept_In in Hy. rewrite Forall_forall in H0.
    apply H0; [exact Hx|exact (forallb_In _ _ _ Hwa Hx)|exact (forallb_In _ _ _ Hwb Hy)].
  - (* grouped *) cbn [py_eq wf] in *. rewrite (String.eqb_sym name n). f_equal.
    apply all2_sym. intros x y Hx Hy. rewrite Forall_forall in H0.
    apply H0; [exact Hx|exact (forallb_In _ _ _ Hwa Hx)|exact (forallb_In _ _ _ Hwb Hy)].
Qed.

(* ---------- what == decides ---------- *)
Lemma py_eq_rec_spec il ir n1 f1 v1 n2 f2 v2 :
  py_eq F H il ir (PRec n1 f1 v1) (PRec n2 f2 v2) = true <->
  (n1 = n2 /\ H n1 f1 = H n2 f2 /\ (f_eq_descriptors F = true -> f1 = f2)) /\
  Forall2 (fun a b => py_eq F H il ir a b = true) (kept F il (slots F f1) v1) (kept F ir (slots F f2) v2).
Proof.
  cbn [py_eq]. rewrite all2_kept_eq, !andb_true_iff, String.eqb_eq, Z.eqb_eq, all2_Forall2, orb_true_iff, fields_eqb_eq.
  destruct (f_eq_descriptors F); cbn; intuition congruence.
Qed.

Lemma py_eq_grp_spec il ir n1 m1 n2 m2 :
  py_eq F H il ir (PGrp n1 m1) (PGrp n2 m2) = true <->
  n1 = n2 /\ Forall2 (fun a b => py_eq F H (fw F il) (fw F ir) a b = true) m1 m2.
Proof. cbn [py_eq]. rewrite andb_true_iff, String.eqb_eq, all2_Forall2. tauto. Qed.

(* ---------- hashing ---------- *)
Definition key (il : list string) (v : pval) : pval := freeze true true (dpack F H il v).

Lemma key_tuple il l : key il (PTuple l) = PTuple (map (key il) l).
Proof. unfold key. cbn. rewrite map_map. reflexivity. Qed.
Lemma key_list il l : key il (PList l) = PTuple (map (key il) l).
Proof. unfold key. cbn. rewrite map_map. reflexivity. Qed.
Lemma key_dict il d : key il (PDict d) = PFset (map (fun kv => PTuple [PStr (fst kv); key il (snd kv)]) d).
Proof. unfold key. cbn. rewrite map_map. reflexivity. Qed.
Lemma key_rec il n f vs :
  key il (PRec n f vs) = PTuple [PTuple [PStr n; PInt (H n f)]; PTuple (map (key il) (kept F il (slots F f) vs))].
Proof. unfold key. cbn. rewrite map_kept_eq, map_map. reflexivity. Qed.
Lemma key_grp il n ms : key il (PGrp n ms) = PTuple [PStr n; PTuple (map (key (fw F il)) ms)].
Proof. unfold key. cbn. rewrite map_map. reflexivity. Qed.

Lemma forallb_map_intro {A B} (p : B -> bool) (k : A -> B) l :
  (forall x, In x l -> p (k x) = true) -> forallb p (map k l) = true.
Proof. intros Hx. apply forallb_forall. intros y Hy. apply in_map_iff in Hy. destruct Hy as [x [<- Hin]]. apply Hx. exact Hin. Qed.

(* the deep freeze leaves nothing unhashable behind, whatever the nesting *)
Lemma key_frozen : forall v, wf v = true -> forall il, frozen (key il v) = true.
Proof.
  induction v using pval_ind'; intros Hwf il; try reflexivity.
  - rewrite key_tuple. cbn [frozen wf] in *. apply forallb_map_intro. intros x Hin. rewrite Forall_forall in H0.
    apply H0; [exact Hin|exact (forallb_In _ _ _ Hwf Hin)].
  - rewrite key_list. cbn [frozen wf] in *. apply forallb_map_intro. intros x Hin. rewrite Forall_forall in H0.
    apply H0; [exact Hin|exact (forallb_In _ _ _ Hwf Hin)].
  - rewrite key_dict. cbn [frozen wf] in *. apply andb_prop in Hwf. destruct Hwf as [_ Hall].
    apply forallb_map_intro. intros kv Hin. cbn. rewrite andb_true_r. rewrite Forall_forall in H0.
    apply H0; [exact Hin|exact (forallb_In _ _ _ Hall Hin)].
  - rewrite key_rec. cbn [wf] in Hwf.
    assert (Hm : forallb frozen (map (key il) (kept F il (slots F f) vs)) = true).
    { apply forallb_map_intro. intros x Hin. apply kept_In in Hin. rewrite Forall_forall in H0.
      apply H0; [exact Hin|exact (forallb_In _ _ _ Hwf Hin)]. }
    cbn [frozen forallb]. rewrite Hm. reflexivity.
  - rewrite key_grp. cbn [wf] in Hwf.
    assert (Hm : forallb frozen (map (key (fw F il)) ms) = true).
    { apply forallb_map_intro. intros x Hin. rewrite Forall_forall in H0.
      apply H0; [exact Hin|exact (forallb_In _ _ _ Hwf Hin)]. }
    cbn [frozen forallb]. rewrite Hm. reflexivity.
  - discriminate Hwf.
Qed.

(* equal records have equal hash keys (as Python compares the keys) *)
Lemma key_scalar_eq a b il ir jl jr :
  match a with PNone | PBool _ | PInt _ | PFloat _ _ | PStr _ | PBytes _ | PDt _ _ _ _ => True | _ => False end ->
  py_eq F H il ir a b = true -> py_eq F H jl jr (key il a) (key ir b) = true.
Proof.
  destruct a; intros Ha; try contradiction; destruct b; cbn; intros Hx; try discriminate Hx; exact Hx.
Qed.

Lemma py_eq_key : forall a, wf a = true -> forall y, wf y = true -> forall il ir,
  py_eq F H il ir a y = true -> py_eq F H [] [] (key il a) (key ir y) = true.
Proof.
  induction a using pval_ind'; intros Hwa y Hwb il ir Heq;
    try (apply key_scalar_eq; [exact I|exact Heq]);
    destruct y; try discriminate Heq; try discriminate Hwa.
  - rewrite !key_tuple. cbn [py_eq wf] in *. revert Heq. apply all2_map. intros x y Hx Hy Hxy.
    rewrite Forall_forall in H0.
    apply H0; [exact Hx|exact (forallb_In _ _ _ Hwa Hx)|exact (forallb_In _ _ _ Hwb Hy)|exact Hxy].
  - rewrite !key_list. cbn [py_eq wf] in *. revert Heq. apply all2_map. intros x y Hx Hy Hxy.
    rewrite Forall_forall in H0.
    apply H0; [exact Hx|exact (forallb_In _ _ _ Hwa Hx)|exact (forallb_In _ _ _ Hwb Hy)|exact Hxy].
  - rewrite !key_dict. cbn [py_eq wf] in *.
    apply andb_prop in Hwa. destruct Hwa as [_ Hw1]. apply andb_prop in Hwb. destruct Hwb as [_ Hw2].
    apply andb_prop in Heq. destruct Heq as [Hlen Hall]. rewrite !map_length, Hlen. cbn.
    rewrite all_dict_spec in Hall. apply forallb_map_intro. intros kv Hin.
    destruct (Hall kv Hin) as [w [Hl Hf]]. apply lookup_some_in in Hl.
    apply existsb_exists. exists (PTuple [PStr (fst kv); key ir w]). split.
    + apply in_map_iff. exists (fst kv, w). split; [reflexivity|exact Hl].
    + cbn. rewrite String.eqb_refl, andb_true_r. cbn. rewrite Forall_forall in H0.
      apply (H0 kv Hin (forallb_In _ _ _ Hw1 Hin) w); [|exact Hf].
      exact (forallb_In (fun kv => wf (snd kv)) _ _ Hw2 Hl).
  - rewrite !key_rec. apply py_eq_rec_spec in Heq. destruct Heq as [[Hn [Hh _]] Hvals].
    apply all2_Forall2 in Hvals. cbn [py_eq all2 wf] in *. subst name. rewrite String.eqb_refl. cbn.
    rewrite Hh, Z.eqb_refl. cbn. rewrite andb_true_r. revert Hvals. apply all2_map. intros x y Hx Hy Hxy.
    apply kept_In in Hx. apply kept_In in Hy. rewrite Forall_forall in H0.
    apply H0; [exact Hx|exact (forallb_In _ _ _ Hwa Hx)|exact (forallb_In _ _ _ Hwb Hy)|exact Hxy].
  - rewrite !key_grp. cbn [py_eq all2 wf] in *. apply andb_prop in Heq. destruct Heq as [Hn Hms].
    rewrite Hn. cbn. rewrite andb_true_r. revert Hms. apply all2_map. intros x y Hx Hy Hxy.
    rewrite Forall_forall in H0.
    apply H0; [exact Hx|exact (forallb_In _ _ _ Hwa Hx)|exact (forallb_In _ _ _ Hwb Hy)|exact Hxy].
Qed.

(* ---------- the top-level methods under the facts the code has to have ---------- *)
Hypothesis Fok : facts_ok F = true.

Lemma facts_ok_inv :
  f_eq_ign_left F = true /\ f_eq_ign_right F = true /\ f_eq_isinstance_guard F = true /\ f_ne_default F = true /\
  f_hash_ign F = true /\ f_hash_deep F = true /\ f_hash_dict_unordered F = true /\
  f_skip_before_append F = true /\ f_grp_accepts F = true /\ f_grp_forwards F = true /\ f_ctx_exception F = true /\
  f_hashable_defined F = true /\ f_eq_descriptors F = true /\
  f_ctx_base_exception F = true /\ f_ctx_generator_exit F = true /\ f_ctx_control F = true.
Proof.
  pose proof Fok as K. unfold facts_ok in K. repeat (apply andb_prop in K; destruct K as [K ?]).
  repeat split; assumption.
Qed.

Lemma rec_eq_unfold ign a b : is_record b = true -> rec_eq F H ign a b = Some (py_eq F H ign ign a b).
Proof.
  destruct facts_ok_inv as (E1 & E2 & E3 & _ & _ & _ & _ & _ & E9 & _).
  intros Hb. unfold rec_eq. rewrite Hb, E1, E2, E9. cbn. rewrite andb_false_r. reflexivity.
Qed.

Lemma rec_eq_nonrecord ign a b : is_record b = false -> rec_eq F H ign a b = Some false.
Proof.
  destruct facts_ok_inv as (_ & _ & E3 & _). intros Hb. unfold rec_eq. rewrite Hb, E3. reflexivity.
Qed.

Lemma fw_id ign : fw F ign = ign.
Proof. destruct facts_ok_inv as (_ & _ & _ & _ & _ & _ & _ & _ & _ & E10 & _). unfold fw. rewrite E10. reflexivity. Qed.

Theorem rec_eq_total ign a b : exists x, rec_eq F H ign a b = Some x.
Proof.
  destruct (is_record b) eqn:Hb.
  - rewrite rec_eq_unfold by exact Hb. eexists. reflexivity.
  - rewrite rec_eq_nonrecord by exact Hb. eexists. reflexivity.
Qed.

Theorem rec_ne_negates ign a b : exists x, rec_eq F H ign a b = Some x /\ rec_ne F H ign a b = Some (negb x).
Proof.
  destruct facts_ok_inv as (_ & _ & _ & E4 & _).
  destruct (rec_eq_total ign a b) as [x Hx]. exists x. split; [exact Hx|]. unfold rec_ne. rewrite Hx, E4. reflexivity.
Qed.

(* two plain records are equal exactly when they have the same descriptor (name and fields) and their kept
   values are pairwise equal *)
Theorem rec_eq_spec ign n1 f1 v1 n2 f2 v2 :
  rec_eq F H ign (PRec n1 f1 v1) (PRec n2 f2 v2) = Some true <->
  (n1, f1) = (n2, f2) /\
  Forall2 (fun a b => py_eq F H ign ign a b = true) (kept F ign (slots F f1) v1) (kept F ign (slots F f2) v2).
Proof.
  destruct facts_ok_inv as (_ & _ & _ & _ & _ & _ & _ & _ & _ & _ & _ & _ & E13 & _).
  rewrite rec_eq_unfold by reflexivity.
  assert (Hs : Some (py_eq F H ign ign (PRec n1 f1 v1) (PRec n2 f2 v2)) = Some true <->
               py_eq F H ign ign (PRec n1 f1 v1) (PRec n2 f2 v2) = true).
  { split; [intros Hx; inversion Hx; reflexivity|intros ->; reflexivity]. }
  rewrite Hs, py_eq_rec_spec. split.
  - intros [[Hn [_ Hf]] Hv]. split; [|exact Hv]. rewrite Hn, (Hf E13). reflexivity.
  - intros [Hd Hv]. inversion Hd; subst. split; [repeat split|exact Hv].
Qed.

(* records of different descriptors are unequal, whatever the descriptor hash does (in particular when the two
   descriptors share their identifier) and whatever their values *)
Theorem distinct_descriptors_unequal ign n1 f1 v1 n2 f2 v2 : (n1, f1) <> (n2, f2) ->
  rec_eq F H ign (PRec n1 f1 v1) (PRec n2 f2 v2) = Some false.
Proof.
  intros Hne. destruct (rec_eq_total ign (PRec n1 f1 v1) (PRec n2 f2 v2)) as [[|] Hx]; [|exact Hx].
  apply rec_eq_spec in Hx. destruct Hx as [Hd _]. contradiction.
Qed.

Lemma members_eq ign m1 m2 : forallb is_record m2 = true ->
  (Forall2 (fun a b => py_eq F H ign ign a b = true) m1 m2 <->
   Forall2 (fun a b => rec_eq F H ign a b = Some true) m1 m2).
Proof.
  intros Hr. split; intros Hf.
  - induction Hf as [|a b t u Hab _ IH]; constructor; cbn in Hr; apply andb_prop in Hr; destruct Hr as [Hb Hu].
    + rewrite rec_eq_unfold by exact Hb. rewrite Hab. reflexivity.
    + apply IH. exact Hu.
  - induction Hf as [|a b t u Hab _ IH]; constructor; cbn in Hr; apply andb_prop in Hr; destruct Hr as [Hb Hu].
    + rewrite rec_eq_unfold in Hab by exact Hb. inversion Hab. reflexivity.
    + apply IH. exact Hu.
Qed.

(* grouped records: same name and pairwise equal members *)
Theorem rec_eq_spec_grouped ign n1 m1 n2 m2 : forallb is_record m2 = true ->
  (rec_eq F H ign (PGrp n1 m1) (PGrp n2 m2) = Some true <->
   n1 = n2 /\ Forall2 (fun a b => rec_eq F H ign a b = Some true) m1 m2).
Proof.
  intros Hr. rewrite rec_eq_unfold by reflexivity. rewrite <- (members_eq ign m1 m2 Hr).
  pose proof (py_eq_grp_spec ign ign n1 m1 n2 m2) as S. rewrite !fw_id in S. rewrite <- S.
  split; [intros Hx; inversion Hx; reflexivity|intros ->; reflexivity].
Qed.

Theorem rec_eq_refl ign r : wf r = true -> is_record r = true -> rec_eq F H ign r r = Some true.
Proof. intros Hw Hr. rewrite rec_eq_unfold by exact Hr. rewrite py_eq_refl by exact Hw. reflexivity. Qed.

Theorem rec_eq_sym ign a b : wf a = true -> wf b = true -> is_record a = true -> is_record b = true ->
  rec_eq F H ign a b = rec_eq F H ign b a.
Proof.
  intros Hwa Hwb Ha Hb. rewrite !rec_eq_unfold by assumption. f_equal. apply py_eq_sym; assumption.
Qed.

Lemma hkey_key ign r : hkey F H ign r = key ign r.
Proof.
  destruct facts_ok_inv as (_ & _ & _ & _ & E5 & E6 & E7 & _). unfold hkey, key. rewrite E5, E6, E7. reflexivity.
Qed.

Section Hash.
Variable Hs : pval -> Z.

Lemma rec_hash_unfold ign r : wf r = true -> rec_hash F H Hs ign r = Some (Hs (key ign r)).
Proof.
  destruct facts_ok_inv as (_ & _ & _ & _ & _ & _ & _ & _ & E9 & _ & _ & E12 & _).
  intros Hw. unfold rec_hash. rewrite E9, E12, andb_false_r. cbn. rewrite hkey_key, key_frozen by exact Hw. reflexivity.
Qed.

Theorem rec_hashable ign r : wf r = true -> exists h, rec_hash F H Hs ign r = Some h.
Proof. intros Hw. rewrite rec_hash_unfold by exact Hw. eexists. reflexivity. Qed.

(* Python's hash agrees with == on hashable values *)
Hypothesis Hs_eq : forall a b, frozen a = true -> frozen b = true -> py_eq F H [] [] a b = true -> Hs a = Hs b.

Theorem rec_eq_hash ign a b : wf a = true -> wf b = true ->
  rec_eq F H ign a b = Some true -> rec_hash F H Hs ign a = rec_hash F H Hs ign b.
Proof.
  intros Hwa Hwb Heq. rewrite !rec_hash_unfold by assumption. f_equal.
  destruct (is_record b) eqn:Hb; [|rewrite rec_eq_nonrecord in Heq by exact Hb; discriminate Heq].
  rewrite rec_eq_unfold in Heq by exact Hb. inversion Heq as [Hp].
  apply Hs_eq; try (apply key_frozen; assumption). apply py_eq_key; assumption.
Qed.
End Hash.

(* ---------- the scoped override ---------- *)
Theorem with_ignore_restores xs (b : body) g :
  fst (with_ignore F xs b g) = g /\ snd (with_ignore F xs b g) = snd (b xs).
Proof.
  destruct facts_ok_inv as (_ & _ & _ & _ & _ & _ & _ & _ & _ & _ & E11 & _ & _ & E14 & E15 & E16).
  unfold with_ignore. destruct (b xs) as [g' k]. cbn [fst snd]. split; [|reflexivity].
  destruct k; cbn [restores]; rewrite ?E11, ?E14, ?E15, ?E16; reflexivity.
Qed.

End WithFacts.
