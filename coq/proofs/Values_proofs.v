From Coq Require Import List Bool NArith ZArith Lia.
From Coq Require Import Init.Byte.
From FR Require Import Bytes Msgpack Msgpack_proofs Packer Stream.
Import ListNotations.
Open Scope Z_scope.

(* ---------- induction principle for the mutually nested fval / rec ---------- *)
Section FvalInd.
Variable P : fval -> Prop.
Variable Q : rec -> Prop.
Hypothesis Hnone : P FNone.
Hypothesis Hstr : forall s, P (FStr s).
Hypothesis Hint : forall z, P (FInt z).
Hypothesis Hbool : forall b, P (FBool b).
Hypothesis Hfloat : forall n, P (FFloat n).
Hypothesis Hbytes : forall s, P (FBytes s).
Hypothesis Hdt : forall d, P (FDt d).
Hypothesis Hpath : forall t f, P (FPath t f).
Hypothesis Hcmd : forall f b, P (FCmd f b).
Hypothesis Hdig : forall a b c, P (FDigest a b c).
Hypothesis Hip : forall f n, P (FIp f n).
Hypothesis Hlist : forall l, Forall P l -> P (FList l).
Hypothesis Hrec : forall r, Q r -> P (FRec r).
Hypothesis Hpy : forall v, P (FPy v).
Hypothesis HRec : forall d vals, Forall P vals -> Q (Rec d vals).

Fixpoint fval_ind' (v : fval) : P v :=
  match v with
  | FNone => Hnone | FStr s => Hstr s | FInt z => Hint z | FBool b => Hbool b | FFloat n => Hfloat n
  | FBytes s => Hbytes s | FDt d => Hdt d | FPath t f => Hpath t f | FCmd f b => Hcmd f b
  | FDigest a b c => Hdig a b c | FIp f n => Hip f n
  | FList l => Hlist l ((fix go (l : list fval) : Forall P l :=
                           match l with [] => Forall_nil _ | a :: t => Forall_cons a (fval_ind' a) (go t) end) l)
  | FRec r => Hrec r (rec_ind' r)
  | FPy v => Hpy v
  end
with rec_ind' (r : rec) : Q r :=
  match r with
  | Rec d vals => HRec d vals ((fix go (l : list fval) : Forall P l :=
                                  match l with [] => Forall_nil _ | a :: t => Forall_cons a (fval_ind' a) (go t) end) vals)
  end.
End FvalInd.

(* ---------- untyped legacy payloads (stringlist / dictlist / dynamic) ---------- *)
Section PyvInd.
Variable P : pyv -> Prop.
Hypothesis Hn : P YNone. Hypothesis Hb : forall b, P (YBool b). Hypothesis Hi : forall z, P (YInt z).
Hypothesis Hf : forall n, P (YFloat n). Hypothesis Hs : forall s, P (YStr s). Hypothesis Hy : forall s, P (YBytes s).
Hypothesis Hl : forall l, Forall P l -> P (YList l).
Hypothesis Ht : forall l, Forall P l -> P (YTuple l).
Hypothesis Hd : forall l, Forall (fun kx => P (fst kx) /\ P (snd kx)) l -> P (YDict l).
Fixpoint pyv_ind' (v : pyv) : P v :=
  match v with
  | YNone => Hn | YBool b => Hb b | YInt z => Hi z | YFloat n => Hf n | YStr s => Hs s | YBytes s => Hy s
  | YList l => Hl l ((fix go (l : list pyv) : Forall P l :=
                        match l with [] => Forall_nil _ | a :: t => Forall_cons a (pyv_ind' a) (go t) end) l)
  | YTuple l => Ht l ((fix go (l : list pyv) : Forall P l :=
                         match l with [] => Forall_nil _ | a :: t => Forall_cons a (pyv_ind' a) (go t) end) l)
  | YDict l => Hd l ((fix go (l : list (pyv * pyv)) : Forall (fun kx => P (fst kx) /\ P (snd kx)) l :=
                        match l with
                        | [] => Forall_nil _
                        | (k, a) :: t => Forall_cons (k, a) (conj (pyv_ind' k) (pyv_ind' a)) (go t)
                        end) l)
  end.
End PyvInd.

(* payloads that survive: the top level is a list, nested sequences are tuples (the unpacker runs with
   use_list=False), mapping keys are text or bytes (strict_map_key) *)
Fixpoint py_okb (top : bool) (v : pyv) {struct v} : bool :=
  match v with
  | YList l => top && (fix go (l : list pyv) := match l with [] => true | a :: t => py_okb false a && go t end) l
  | YTuple l => negb top && (fix go (l : list pyv) := match l with [] => true | a :: t => py_okb false a && go t end) l
  | YDict l => (fix go (l : list (pyv * pyv)) :=
                  match l with
                  | [] => true
                  | (k, a) :: t => match k with YStr _ | YBytes _ => true | _ => false end && py_okb false a && go t
                  end) l
  | _ => true
  end.

Lemma all_some_map'' {A B} (f : A -> option B) (g : A -> B) l :
  Forall (fun a => f a = Some (g a)) l -> all_some (map f l) = Some (map g l).
Proof. induction 1 as [|a t Ha _ IH]; [reflexivity|]. cbn [map all_some]. rewrite Ha, IH. reflexivity. Qed.

Lemma pack_py_seq l : (fix go (l : list pyv) : list xv := match l with [] => [] | a :: t => pack_py a :: go t end) l = map pack_py l.
Proof. induction l as [|a t IH]; [reflexivity|]. cbn [map]. f_equal; exact IH. Qed.

Lemma unpack_py_arr top l :
  unpack_py top (XArr l) = match all_some (map (unpack_py false) l) with
                           | Some r => Some (if top then YList r else YTuple r) | None => None end.
Proof.
  cbn [unpack_py].
  assert (E : (fix go (l0 : list xv) : list (option pyv) := match l0 with [] => [] | a :: t => unpack_py false a :: go t end) l
              = map (unpack_py false) l) by (induction l as [|a t IH]; [reflexivity|cbn [map]; f_equal; exact IH]).
  rewrite E. reflexivity.
Qed.

Lemma unpack_py_pack : forall v top, py_okb top v = true -> unpack_py top (pack_py v) = Some v.
Proof.
  induction v using pyv_ind'; intros top Hok; try reflexivity.
  - (* YList *)
    cbn [py_okb] in Hok. apply andb_prop in Hok. destruct Hok as [Ht Hall]. subst top.
    cbn [pack_py]. rewrite pack_py_seq, unpack_py_arr, map_map.
    rewrite (all_some_map'' _ (fun a => a)); [rewrite map_id; reflexivity|].
    clear - H Hall. induction H as [|a t Ha _ IH]; [constructor|].
    apply andb_prop in Hall. destruct Hall as [H1 H2]. constructor; [apply Ha; exact H1|apply IH; exact H2].
  - (* YTuple *)
    cbn [py_okb] in Hok. apply andb_prop in Hok. destruct Hok as [Ht Hall]. apply negb_true_iff in Ht. subst top.
    cbn [pack_py]. rewrite pack_py_seq, unpack_py_arr, map_map.
    rewrite (all_some_map'' _ (fun a => a)); [rewrite map_id; reflexivity|].
    clear - H Hall. induction H as [|a t Ha _ IH]; [constructor|].
    apply andb_prop in Hall. destruct Hall as [H1 H2]. constructor; [apply Ha; exact H1|apply IH; exact H2].
  - (* YDict *)
    cbn [pack_py unpack_py].
    assert (E : forall l0, Forall (fun kx => (forall top, py_okb top (fst kx) = true -> unpack_py top (pack_py (fst kx)) = Some (fst kx)) /\
                                             (forall top, py_okb top (snd kx) = true -> unpack_py top (pack_py (snd kx)) = Some (snd kx))) l0 ->
              py_okb top (YDict l0) = true ->
              all_some ((fix go (l1 : list (xv * xv)) : list (option (pyv * pyv)) :=
                           match l1 with
                           | [] => []
                           | (k, a) :: t =>
                               match k, unpack_py false a with
                               | XStr ks, Some a' => Some (YStr ks, a')
                               | XBin kb, Some a' => Some (YBytes kb, a')
                               | _, _ => None
                               end :: go t
                           end) ((fix go (l1 : list (pyv * pyv)) : list (xv * xv) :=
                                    match l1 with [] => [] | (k, a) :: t => (pack_py k, pack_py a) :: go t end) l0)) = Some l0).
    { induction 1 as [|[k a] t [_ Ha] _ IH]; intros Hk; [reflexivity|].
      cbn [py_okb] in Hk. apply andb_prop in Hk. destruct Hk as [Hk Ht]. apply andb_prop in Hk. destruct Hk as [Hkk Hka].
      cbn [fst snd] in *. cbn [all_some]. rewrite (Ha false Hka).
      destruct k; try discriminate Hkk; cbn [pack_py]; rewrite (IH Ht); reflexivity. }
    rewrite (E l H Hok). reflexivity.
Qed.

Section Values.
Variable c : cfg.
Variable HASH : desc -> Z.

Definition flavour_ok (f : Z) : bool := (f =? 0) || (f =? 1).
Definition optlen_ok (n : nat) (o : option bytes) : bool :=
  match o with None => true | Some b => Nat.eqb (List.length b) n && negb (Nat.eqb n 0) end.

(* values of declared type t that round-trip: what a record slot of that type can hold (after the type's
   conversion), minus the untyped legacy payloads (stringlist/dictlist/dynamic: correspondence only) *)
Fixpoint val_okb (reg : registry) (t : ftype) (v : fval) {struct v} : bool :=
  match v with
  | FNone => match t with TList _ | TDigest | TUnknown | TStringlist | TDictlist | TDynamic => false | _ => true end
  | FStr _ => match t with TString | TIpNet => true | _ => false end
  | FInt z => match t with
              | TInt => true
              | TUint bits => (0 <=? z) && (z <? 2 ^ bits)
              | _ => false end
  | FBool _ => match t with TBool => true | _ => false end
  | FFloat _ => match t with TFloat => true | _ => false end
  | FBytes _ => match t with TBytes => true | _ => false end
  | FDt d => match t, d with
             | TDatetime, DtTuple _ _ _ _ _ _ _ => true
             | TDatetime, DtIso _ => true
             | _, _ => false end
  | FPath _ f => match t with TPath => flavour_ok f | _ => false end
  | FCmd f _ => match t with TCommand => flavour_ok f | _ => false end
  | FDigest a b d => match t with TDigest => optlen_ok 16 a && optlen_ok 20 b && optlen_ok 32 d | _ => false end
  | FIp fam n => match t with
                 | TIpAddr => ((fam =? 4) && (0 <=? n) && (n <? 2 ^ 32))
                              || ((fam =? 6) && (0 <=? n) && (n <? 2 ^ 128) && (IP6_SMALL_PACKED c || (2 ^ 32 <=? n)))
                 | _ => false end
  | FList l => match t with
               | TList et => (fix go (l : list fval) := match l with [] => true | a :: tl => val_okb reg et a && go tl end) l
               | _ => false end
  | FRec r => match t with TRecord => rec_okb reg r | _ => false end
  | FPy v => match t with
             | TStringlist | TDictlist => match v with YList _ => py_okb true v | _ => false end
             | TDynamic => match v with
                           | YNone | YFloat _ | YDict _ | YTuple _ => false
                           | _ => py_okb true v
                           end
             | _ => false end
  end
with rec_okb (reg : registry) (r : rec) {struct r} : bool :=
  match r with
  | Rec d vals =>
      match reg_find reg (d_name d) (HASH d) with
      | Some d' => desc_eqb d' d
      | None => false
      end
      && (fix go (ts : list ftype) (vs : list fval) {struct vs} : bool :=
            match ts, vs with
            | [], [] => true
            | t :: ts', v :: vs' => val_okb reg t v && go ts' vs'
            | _, _ => false
            end) (field_types d) vals
      && match last vals FNone with FInt z => z =? VERSION c | _ => false end
  end.

Fixpoint fdepth (v : fval) : nat :=
  match v with
  | FList l => S ((fix go (l : list fval) := match l with [] => O | a :: t => Nat.max (fdepth a) (go t) end) l)
  | FRec r => rdepth r
  | _ => O
  end
with rdepth (r : rec) : nat :=
  match r with
  | Rec _ vals => S ((fix go (l : list fval) := match l with [] => O | a :: t => Nat.max (fdepth a) (go t) end) vals)
  end.

Definition maxdepth (l : list fval) : nat := fold_right (fun a n => Nat.max (fdepth a) n) O l.
Lemma fdepth_list l : fdepth (FList l) = S (maxdepth l).
Proof. cbn [fdepth]. f_equal. Qed.
Lemma rdepth_rec d vals : rdepth (Rec d vals) = S (maxdepth vals).
Proof. cbn [rdepth]. f_equal. Qed.
Lemma maxdepth_in l a : In a l -> (fdepth a <= maxdepth l)%nat.
Proof. induction l as [|b t IH]; intros H; [contradiction|]. cbn [maxdepth fold_right]. destruct H as [->|H]; [lia|]. specialize (IH H). unfold maxdepth in IH. lia. Qed.

Lemma pack_f_list l : pack_f c HASH (FList l) = XArr (map (pack_f c HASH) l).
Proof. reflexivity. Qed.
Lemma pack_rec_eq d vals :
  pack_rec c HASH (Rec d vals) = XExt (SUB_RECORD c) (XArr [xident HASH d; XArr (map (pack_f c HASH) vals)]).
Proof. reflexivity. Qed.

Lemma desc_eqb_eq a b : desc_eqb a b = true -> a = b.
Proof.
  destruct a as [na fa], b as [nb fb]. unfold desc_eqb. cbn [d_name d_fields]. intros H.
  apply andb_prop in H. destruct H as [Hn Hf]. apply bytes_eqb_eq in Hn. subst nb. f_equal.
  revert fb Hf. induction fa as [|[t1 n1] fa IH]; intros [|[t2 n2] fb] Hf; try discriminate; [reflexivity|].
  apply andb_prop in Hf. destruct Hf as [H1 H2]. apply andb_prop in H1. destruct H1 as [Ht Hn].
  apply bytes_eqb_eq in Ht. apply bytes_eqb_eq in Hn. subst. f_equal. apply IH. exact H2.
Qed.

Lemma all_some_map' {A B} (f : A -> option B) (g : A -> B) l :
  Forall (fun a => f a = Some (g a)) l -> all_some (map f l) = Some (map g l).
Proof. induction 1 as [|a t Ha _ IH]; [reflexivity|]. cbn [map all_some]. rewrite Ha, IH. reflexivity. Qed.

Lemma flavour_norm f : flavour_ok f = true -> (if f =? 1 then 1 else 0) = f.
Proof. unfold flavour_ok. intros H. apply orb_prop in H. destruct H as [H|H]; apply Z.eqb_eq in H; subst; reflexivity. Qed.

Lemma optbin_roundtrip n o : optlen_ok n o = true -> unpack_optbin n (xopt_bin o) = Some o.
Proof.
  destruct o as [b|]; [|reflexivity]. cbn [optlen_ok xopt_bin unpack_optbin]. intros H.
  apply andb_prop in H. destruct H as [Hl Hn]. destruct b as [|x b].
  - destruct n; [discriminate Hn|discriminate Hl].
  - rewrite Hl. reflexivity.
Qed.

Lemma set_last_id (a : fval) l : l <> [] -> last l FNone = a -> set_last a l = l.
Proof.
  induction l as [|x t IH]; intros Hne Hl; [contradiction|].
  destruct t as [|y t']; [cbn in *; congruence|].
  change (set_last a (x :: y :: t')) with (x :: set_last a (y :: t')). f_equal. apply IH; [discriminate|exact Hl].
Qed.

Definition zip_ok reg := fix go (ts : list ftype) (vs : list fval) {struct vs} : bool :=
  match ts, vs with
  | [], [] => true
  | t :: ts', v :: vs' => val_okb reg t v && go ts' vs'
  | _, _ => false
  end.

Lemma rec_okb_unfold reg d vals : rec_okb reg (Rec d vals) =
  (match reg_find reg (d_name d) (HASH d) with Some d' => desc_eqb d' d | None => false end
   && zip_ok reg (field_types d) vals
   && match last vals FNone with FInt z => z =? VERSION c | _ => false end).
Proof. reflexivity. Qed.

Lemma zip_ok_length reg : forall ts vs, zip_ok reg ts vs = true -> List.length vs = List.length ts.
Proof.
  induction ts as [|t ts IH]; intros [|v vs] H; try discriminate; [reflexivity|].
  cbn in H. apply andb_prop in H. destruct H as [_ H]. cbn [List.length]. f_equal. apply IH. exact H.
Qed.

Definition Pv (v : fval) : Prop := forall reg t dp,
  val_okb reg t v = true -> (fdepth v < dp)%nat -> unpack_f c dp reg t (pack_f c HASH v) = Some v.
Definition Qr (r : rec) : Prop := forall reg dp,
  rec_okb reg r = true -> (rdepth r < dp)%nat -> unpack_f c dp reg TRecord (pack_rec c HASH r) = Some (FRec r).

Lemma zip_roundtrip reg dp : forall vals ts,
  Forall Pv vals -> zip_ok reg ts vals = true -> (maxdepth vals < dp)%nat ->
  all_some (zip_opt (unpack_f c dp reg) ts (map (pack_f c HASH) vals)) = Some vals.
Proof.
  induction vals as [|v vs IH]; intros ts HP Hok Hd.
  - destruct ts; [reflexivity|discriminate].
  - destruct ts as [|t ts]; [discriminate|]. inversion HP as [|? ? Hv Hvs]; subst.
    cbn in Hok. apply andb_prop in Hok. destruct Hok as [Ho1 Ho2].
    cbn [map zip_opt all_some]. cbn [maxdepth fold_right] in Hd.
    rewrite (Hv reg t dp Ho1) by lia.
    rewrite (IH ts Hvs Ho2) by (unfold maxdepth; lia). reflexivity.
Qed.

Lemma fit_exact n (vs : list xv) : List.length vs = n -> fit true n vs = Some vs.
Proof.
  intros <-. unfold fit. rewrite Nat.ltb_irrefl, Nat.sub_diag. cbn [repeat]. rewrite app_nil_r. reflexivity.
Qed.

Theorem field_roundtrip : forall v, Pv v.
Proof.
  apply (fval_ind' Pv Qr); unfold Pv, Qr.
  - (* FNone *) intros reg t dp Hok Hd. destruct dp; [lia|]. destruct t; try discriminate Hok; reflexivity.
  - intros s reg t dp Hok Hd. destruct dp; [lia|]. destruct t; try discriminate Hok; reflexivity.
  - (* FInt *) intros z reg t dp Hok Hd. destruct dp; [lia|]. destruct t; try discriminate Hok; [reflexivity|].
    cbn [val_okb] in Hok. cbn [pack_f unpack_f]. rewrite Hok. reflexivity.
  - intros b reg t dp Hok Hd. destruct dp; [lia|]. destruct t; try discriminate Hok; reflexivity.
  - intros n reg t dp Hok Hd. destruct dp; [lia|]. destruct t; try discriminate Hok; reflexivity.
  - intros s reg t dp Hok Hd. destruct dp; [lia|]. destruct t; try discriminate Hok; reflexivity.
  - (* FDt *) intros d reg t dp Hok Hd. destruct dp; [lia|].
    destruct t; try discriminate Hok; destruct d; try discriminate Hok;
      cbn [pack_f pack_dt unpack_f]; rewrite Z.eqb_refl; reflexivity.
  - (* FPath *) intros tx f reg t dp Hok Hd. destruct dp; [lia|]. destruct t; try discriminate Hok.
    cbn [val_okb] in Hok. cbn [pack_f unpack_f]. rewrite (flavour_norm f Hok). reflexivity.
  - (* FCmd *) intros f b reg t dp Hok Hd. destruct dp; [lia|]. destruct t; try discriminate Hok.
    cbn [val_okb] in Hok. destruct b as [[e args]|]; cbn [pack_f unpack_f].
    + rewrite map_map. cbn [xstr].
      rewrite (all_some_map' (fun a => Some a) (fun a => a)) by (apply Forall_forall; intros; reflexivity).
      rewrite map_id, (flavour_norm f Hok). reflexivity.
    + rewrite (flavour_norm f Hok). reflexivity.
  - (* FDigest *) intros a b d reg t dp Hok Hd. destruct dp; [lia|]. destruct t; try discriminate Hok.
    cbn [val_okb] in Hok. apply andb_prop in Hok. destruct Hok as [Hab Hd3]. apply andb_prop in Hab. destruct Hab as [Ha Hb].
    cbn [pack_f unpack_f]. rewrite (optbin_roundtrip 16 a Ha), (optbin_roundtrip 20 b Hb), (optbin_roundtrip 32 d Hd3). reflexivity.
  - (* FIp *) intros fam n reg t dp Hok Hd. destruct dp; [lia|]. destruct t; try discriminate Hok.
    cbn [val_okb] in Hok. cbn [pack_f].
    apply orb_prop in Hok. destruct Hok as [H4|H6].
    + apply andb_prop in H4. destruct H4 as [H4 Hhi]. apply andb_prop in H4. destruct H4 as [Hf Hlo].
      apply Z.eqb_eq in Hf. subst fam. change (4 =? 6) with false. rewrite andb_false_r. cbn [andb].
      cbn [unpack_f]. rewrite Hlo, Hhi. reflexivity.
    + apply andb_prop in H6. destruct H6 as [H6 Hsm]. apply andb_prop in H6. destruct H6 as [H6 Hhi].
      apply andb_prop in H6. destruct H6 as [Hf Hlo]. apply Z.eqb_eq in Hf. subst fam. change (6 =? 6) with true.
      apply Z.leb_le in Hlo. apply Z.ltb_lt in Hhi.
      destruct (IP6_SMALL_PACKED c && true && (n <? 2 ^ 32)) eqn:E.
      * apply andb_prop in E. destruct E as [_ E]. apply Z.ltb_lt in E.
        cbn [unpack_f]. rewrite be_length. cbn [Nat.eqb].
        rewrite unbe_be; [rewrite Z2N.id by lia; reflexivity|].
        apply N2Z.inj_lt. rewrite Z2N.id by lia. cbn. lia.
      * cbn [unpack_f].
        assert (Hge : 2 ^ 32 <= n).
        { apply orb_prop in Hsm. destruct Hsm as [Hs|Hs]; [|apply Z.leb_le in Hs; exact Hs].
          rewrite Hs in E. cbn [andb] in E. apply Z.ltb_ge in E. exact E. }
        replace ((0 <=? n) && (n <? 2 ^ 32)) with false by (symmetry; apply andb_false_iff; right; apply Z.ltb_ge; lia).
        replace ((0 <=? n) && (n <? 2 ^ 128)) with true by (symmetry; apply andb_true_iff; split; [apply Z.leb_le|apply Z.ltb_lt]; lia).
        reflexivity.
  - (* FList *) intros l IHl reg t dp Hok Hd. destruct dp; [lia|]. destruct t; try discriminate Hok.
    rewrite fdepth_list in Hd. rewrite pack_f_list. cbn [unpack_f]. rewrite map_map.
    assert (Hall : Forall (fun a => val_okb reg t a = true) l).
    { cbn [val_okb] in Hok. clear IHl Hd. induction l as [|a tl IH]; [constructor|].
      apply andb_prop in Hok. destruct Hok as [Ha Htl]. constructor; [exact Ha|apply IH; exact Htl]. }
    rewrite (all_some_map' _ (fun a => a)).
    + rewrite map_id. reflexivity.
    + rewrite Forall_forall in *. intros a Ha. apply IHl; [exact Ha|apply Hall; exact Ha|].
      pose proof (maxdepth_in l a Ha). lia.
  - (* FRec *) intros r IHr reg t dp Hok Hd. destruct t; try discriminate Hok.
    cbn [val_okb] in Hok. cbn [pack_f fdepth] in *. apply IHr; assumption.
  - (* FPy *) intros v reg t dp Hok Hd. destruct dp; [lia|].
    destruct t; try discriminate Hok; cbn [val_okb] in Hok.
    + destruct v; try discriminate Hok. pose proof (unpack_py_pack (YList l) true Hok) as E.
      cbn [pack_f]. destruct (pack_py (YList l)) eqn:EP; cbn [pack_py] in EP; try discriminate EP.
      cbn [unpack_f]. rewrite E. reflexivity.
    + destruct v; try discriminate Hok. pose proof (unpack_py_pack (YList l) true Hok) as E.
      cbn [pack_f]. destruct (pack_py (YList l)) eqn:EP; cbn [pack_py] in EP; try discriminate EP.
      cbn [unpack_f]. rewrite E. reflexivity.
    + destruct v; try discriminate Hok; try reflexivity.
      pose proof (unpack_py_pack (YList l) true Hok) as E.
      cbn [pack_f]. destruct (pack_py (YList l)) eqn:EP; cbn [pack_py] in EP; try discriminate EP.
      cbn [unpack_f]. rewrite E. reflexivity.
  - (* Rec *) intros d vals IHv reg dp Hok Hd. destruct dp; [lia|].
    rewrite rec_okb_unfold in Hok. apply andb_prop in Hok. destruct Hok as [Hok Hver].
    apply andb_prop in Hok. destruct Hok as [Hreg Hzip].
    rewrite rdepth_rec in Hd. rewrite pack_rec_eq.
    destruct (reg_find reg (d_name d) (HASH d)) as [d'|] eqn:Ef; [|discriminate]. apply desc_eqb_eq in Hreg. subst d'.
    pose proof (zip_ok_length reg _ _ Hzip) as Hlen.
    assert (Hne : vals <> []).
    { intros ->. cbn in Hver. discriminate. }
    unfold xident. cbn [unpack_f]. rewrite Z.eqb_refl. cbn [negb lookup_ident]. rewrite Ef.
    destruct (map (pack_f c HASH) vals) as [|p0 ps] eqn:Em; [destruct vals; [contradiction|discriminate]|].
    rewrite <- Em. rewrite fit_exact by (rewrite map_length; exact Hlen).
    rewrite (zip_roundtrip reg dp vals (field_types d) IHv Hzip) by lia.
    rewrite set_last_id; [reflexivity|exact Hne|].
    destruct (last vals FNone) as [| |z| | | | | | | | | | |]; try discriminate. apply Z.eqb_eq in Hver. subst. reflexivity.
Qed.

Corollary record_roundtrip r reg dp : rec_okb reg r = true -> (rdepth r < dp)%nat ->
  unpack_rec c dp reg (pack_rec c HASH r) = Some r.
Proof.
  intros Hok Hd. unfold unpack_rec.
  pose proof (field_roundtrip (FRec r) reg TRecord dp) as H. cbn [val_okb pack_f fdepth] in H.
  rewrite (H Hok Hd). reflexivity.
Qed.

End Values.
