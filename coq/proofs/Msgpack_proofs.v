From Coq Require Import List Bool NArith ZArith Lia.
From Coq Require Import Init.Byte.
From FR Require Import Bytes Msgpack.
Import ListNotations.
Open Scope N_scope.

(* ---------- induction principle for the nested type ---------- *)
Section MvInd.
Variable P : mv -> Prop.
Hypothesis Hnil : P MNil.
Hypothesis Hbool : forall b, P (MBool b).
Hypothesis Hint : forall z, P (MInt z).
Hypothesis Hf : forall n, P (MF64 n).
Hypothesis Hstr : forall bs, P (MStr bs).
Hypothesis Hbin : forall bs, P (MBin bs).
Hypothesis Harr : forall l, Forall P l -> P (MArr l).
Hypothesis Hmap : forall l, Forall (fun kx => P (fst kx) /\ P (snd kx)) l -> P (MMap l).
Hypothesis Hext : forall ty bs, P (MExt ty bs).
Fixpoint mv_ind' (v : mv) : P v :=
  match v with
  | MNil => Hnil | MBool b => Hbool b | MInt z => Hint z | MF64 n => Hf n | MStr bs => Hstr bs | MBin bs => Hbin bs
  | MArr l => Harr l ((fix go (l : list mv) : Forall P l :=
                         match l with [] => Forall_nil _ | x :: t => Forall_cons x (mv_ind' x) (go t) end) l)
  | MMap l => Hmap l ((fix go (l : list (mv * mv)) : Forall (fun kx => P (fst kx) /\ P (snd kx)) l :=
                         match l with
                         | [] => Forall_nil _
                         | (k, x) :: t => Forall_cons (k, x) (conj (mv_ind' k) (mv_ind' x)) (go t)
                         end) l)
  | MExt ty bs => Hext ty bs
  end.
End MvInd.

Lemma enc_arr l : enc (MArr l) = arr_hdr (N.of_nat (List.length l)) ++ enc_list l.
Proof. cbn [enc]. f_equal. Qed.
Lemma enc_map l : enc (MMap l) = map_hdr (N.of_nat (List.length l)) ++ enc_pairs l.
Proof. cbn [enc]. f_equal. Qed.

(* ---------- take ---------- *)
Lemma take_app (d r : bytes) : take (blen d) (d ++ r) = Some (d, r).
Proof.
  unfold take, blen. rewrite app_length.
  destruct (N.ltb_spec (N.of_nat (List.length d + List.length r)) (N.of_nat (List.length d))) as [H|H]; [lia|].
  rewrite Nat2N.id. rewrite firstn_app, Nat.sub_diag, firstn_all, firstn_O, app_nil_r.
  rewrite skipn_app, Nat.sub_diag, skipn_all. reflexivity.
Qed.

Lemma take_num_be k n r : n < 256 ^ N.of_nat k -> take_num k (be k n ++ r) = Some (n, r).
Proof.
  intros H. unfold take_num.
  replace (N.of_nat k) with (blen (be k n)) by (unfold blen; rewrite be_length; reflexivity).
  rewrite take_app. rewrite unbe_be by exact H. reflexivity.
Qed.

(* ---------- monotonicity of fuel ---------- *)
Lemma dec_fuel_mono : forall f,
  (forall bs v r, dec f bs = DOk v r -> forall f', (f <= f')%nat -> dec f' bs = DOk v r) /\
  (forall n bs l r, dec_list f n bs = DOk l r -> forall f', (f <= f')%nat -> dec_list f' n bs = DOk l r).
Proof.
  induction f as [|f [IHd IHl]]; split.
  - intros bs v r H. discriminate H.
  - intros n bs l r H. discriminate H.
  - intros bs v r H f' Hf. destruct f' as [|f']; [lia|]. assert (Hle : (f <= f')%nat) by lia.
    cbn [dec] in H |- *. destruct bs as [|b bs]; [discriminate|].
    assert (A : forall n0 r0 w r1,
      match dec_list f n0 r0 with DOk l r' => DOk (MArr l) r' | DIncomplete => DIncomplete | DBad => DBad | DFuel => DFuel end = DOk w r1 ->
      match dec_list f' n0 r0 with DOk l r' => DOk (MArr l) r' | DIncomplete => DIncomplete | DBad => DBad | DFuel => DFuel end = DOk w r1).
    { intros n0 r0 w r1 E. destruct (dec_list f n0 r0) as [l r'| | |] eqn:El; try discriminate.
      rewrite (IHl _ _ _ _ El f' Hle). exact E. }
    assert (M : forall n0 r0 w r1,
      match dec_list f (2 * n0) r0 with DOk l r' => DOk (MMap (pairup l)) r' | DIncomplete => DIncomplete | DBad => DBad | DFuel => DFuel end = DOk w r1 ->
      match dec_list f' (2 * n0) r0 with DOk l r' => DOk (MMap (pairup l)) r' | DIncomplete => DIncomplete | DBad => DBad | DFuel => DFuel end = DOk w r1).
    { intros n0 r0 w r1 E. destruct (dec_list f (2 * n0) r0) as [l r'| | |] eqn:El; try discriminate.
      rewrite (IHl _ _ _ _ El f' Hle). exact E. }
    repeat match type of H with
           | (if ?c then _ else _) = _ => destruct c; [try exact H|]
           end;
    try exact H; try (apply A; exact H); try (apply M; exact H);
    try (unfold with_len in *; destruct (take_num _ bs) as [[n0 r0]|]; [|discriminate]; first [apply A; exact H|apply M; exact H]).
  - intros n bs l r H f' Hf. destruct f' as [|f']; [lia|]. assert (Hle : (f <= f')%nat) by lia.
    cbn [dec_list] in H |- *. destruct (n =? 0); [exact H|].
    destruct (dec f bs) as [v r0| | |] eqn:Ed; try discriminate.
    rewrite (IHd _ _ _ Ed f' Hle).
    destruct (dec_list f (n - 1) r0) as [vs r1| | |] eqn:El; try discriminate.
    rewrite (IHl _ _ _ _ El f' Hle). exact H.
Qed.

Lemma dec_mono f f' bs v r : dec f bs = DOk v r -> (f <= f')%nat -> dec f' bs = DOk v r.
Proof. intros H Hf. exact (proj1 (dec_fuel_mono f) bs v r H f' Hf). Qed.
Lemma dec_list_mono f f' n bs l r : dec_list f n bs = DOk l r -> (f <= f')%nat -> dec_list f' n bs = DOk l r.
Proof. intros H Hf. exact (proj2 (dec_fuel_mono f) n bs l r H f' Hf). Qed.

(* ---------- one decoding step, by header class ---------- *)
Ltac tests_lia :=
  repeat match goal with
  | |- context [N.ltb ?a ?b] =>
      first [rewrite (proj2 (N.ltb_lt a b)) by lia | rewrite (proj2 (N.ltb_ge a b)) by lia]
  | |- context [N.leb ?a ?b] =>
      first [rewrite (proj2 (N.leb_le a b)) by lia | rewrite (proj2 (N.leb_gt a b)) by lia]
  | |- context [N.eqb ?a ?b] =>
      first [rewrite (proj2 (N.eqb_eq a b)) by lia | rewrite (proj2 (N.eqb_neq a b)) by lia]
  end.

Ltac tests_closed :=
  repeat match goal with
  | |- context [N.ltb ?a ?b] => let v := eval vm_compute in (N.ltb a b) in change (N.ltb a b) with v
  | |- context [N.leb ?a ?b] => let v := eval vm_compute in (N.leb a b) in change (N.leb a b) with v
  | |- context [N.eqb ?a ?b] => let v := eval vm_compute in (N.eqb a b) in change (N.eqb a b) with v
  end; cbv iota.

Lemma pow256 k : 256 ^ N.of_nat k = 2 ^ (8 * N.of_nat k).
Proof. change 256 with (2 ^ 8). rewrite <- N.pow_mul_r. reflexivity. Qed.

(* scalars with a concrete header byte followed by a big-endian number *)
Lemma dec_hdr_num f (h : byte) (k : nat) (n : N) r (mk : N -> mv) :
  n < 256 ^ N.of_nat k ->
  (forall r0, dec (S f) (h :: r0) = match take_num k r0 with Some (n0, r') => DOk (mk n0) r' | None => DIncomplete end) ->
  dec (S f) (h :: be k n ++ r) = DOk (mk n) r.
Proof. intros Hn Hd. rewrite Hd, take_num_be by exact Hn. reflexivity. Qed.

Lemma dec_step_cc f r0 : dec (S f) (xcc :: r0) = match take_num 1 r0 with Some (n0, r') => DOk (MInt (Z.of_N n0)) r' | None => DIncomplete end.
Proof. cbn [dec]. change (b2n xcc) with 204. tests_closed. reflexivity. Qed.
Lemma dec_step_cd f r0 : dec (S f) (xcd :: r0) = match take_num 2 r0 with Some (n0, r') => DOk (MInt (Z.of_N n0)) r' | None => DIncomplete end.
Proof. cbn [dec]. change (b2n xcd) with 205. tests_closed. reflexivity. Qed.
Lemma dec_step_ce f r0 : dec (S f) (xce :: r0) = match take_num 4 r0 with Some (n0, r') => DOk (MInt (Z.of_N n0)) r' | None => DIncomplete end.
Proof. cbn [dec]. change (b2n xce) with 206. tests_closed. reflexivity. Qed.
Lemma dec_step_cf f r0 : dec (S f) (xcf :: r0) = match take_num 8 r0 with Some (n0, r') => DOk (MInt (Z.of_N n0)) r' | None => DIncomplete end.
Proof. cbn [dec]. change (b2n xcf) with 207. tests_closed. reflexivity. Qed.
Lemma dec_step_d0 f r0 : dec (S f) (xd0 :: r0) = match take_num 1 r0 with Some (n0, r') => DOk (MInt (signed 1 n0)) r' | None => DIncomplete end.
Proof. cbn [dec]. change (b2n xd0) with 208. tests_closed. reflexivity. Qed.
Lemma dec_step_d1 f r0 : dec (S f) (xd1 :: r0) = match take_num 2 r0 with Some (n0, r') => DOk (MInt (signed 2 n0)) r' | None => DIncomplete end.
Proof. cbn [dec]. change (b2n xd1) with 209. tests_closed. reflexivity. Qed.
Lemma dec_step_d2 f r0 : dec (S f) (xd2 :: r0) = match take_num 4 r0 with Some (n0, r') => DOk (MInt (signed 4 n0)) r' | None => DIncomplete end.
Proof. cbn [dec]. change (b2n xd2) with 210. tests_closed. reflexivity. Qed.
Lemma dec_step_d3 f r0 : dec (S f) (xd3 :: r0) = match take_num 8 r0 with Some (n0, r') => DOk (MInt (signed 8 n0)) r' | None => DIncomplete end.
Proof. cbn [dec]. change (b2n xd3) with 211. tests_closed. reflexivity. Qed.
Lemma dec_step_cb f r0 : dec (S f) (xcb :: r0) = match take_num 8 r0 with Some (n0, r') => DOk (MF64 n0) r' | None => DIncomplete end.
Proof. cbn [dec]. change (b2n xcb) with 203. tests_closed. reflexivity. Qed.

Lemma signed_back k z : (0 < k)%nat -> (- 2 ^ (8 * Z.of_nat k - 1) <= z < 0)%Z ->
  signed k (Z.to_N (z + 2 ^ (8 * Z.of_nat k))) = z.
Proof.
  intros Hk Hz. unfold signed.
  assert (E : (2 ^ (8 * Z.of_nat k) = 2 * 2 ^ (8 * Z.of_nat k - 1))%Z).
  { rewrite <- Z.pow_succ_r by lia. f_equal. lia. }
  assert (P : (0 < 2 ^ (8 * Z.of_nat k - 1))%Z) by (apply Z.pow_pos_nonneg; lia).
  assert (EN : Z.of_N (2 ^ (8 * N.of_nat k - 1)) = (2 ^ (8 * Z.of_nat k - 1))%Z).
  { rewrite N2Z.inj_pow. f_equal. rewrite N2Z.inj_sub by lia. rewrite N2Z.inj_mul, nat_N_Z. reflexivity. }
  destruct (N.ltb_spec (Z.to_N (z + 2 ^ (8 * Z.of_nat k))) (2 ^ (8 * N.of_nat k - 1))) as [H|H].
  - exfalso. apply N2Z.inj_lt in H. rewrite EN, Z2N.id in H by lia. lia.
  - rewrite Z2N.id by lia. lia.
Qed.

Lemma dec_enc_int z r f : mv_wf (MInt z) = true -> dec (S f) (enc_int z ++ r) = DOk (MInt z) r.
Proof.
  cbn [mv_wf]. intros H. apply andb_prop in H. destruct H as [Hlo Hhi].
  apply Z.leb_le in Hlo. apply Z.ltb_lt in Hhi.
  unfold enc_int. destruct (Z.leb_spec 0 z) as [Hz|Hz].
  - set (n := Z.to_N z). assert (Hn : Z.of_N n = z) by (unfold n; apply Z2N.id; lia).
    assert (Hn64 : n < 2 ^ 64) by (apply N2Z.inj_lt; rewrite Hn; exact Hhi).
    destruct (N.ltb_spec n 128) as [H1|H1].
    + cbn [app dec]. rewrite b2n_n2b, N.mod_small by lia. tests_lia. rewrite Hn. reflexivity.
    + destruct (N.ltb_spec n (2 ^ 8)) as [H2|H2];
        [|destruct (N.ltb_spec n (2 ^ 16)) as [H3|H3]; [|destruct (N.ltb_spec n (2 ^ 32)) as [H4|H4]]];
        cbn [app].
      * rewrite (dec_hdr_num f xcc 1 n r (fun n0 => MInt (Z.of_N n0))); [rewrite Hn; reflexivity|exact H2|apply dec_step_cc].
      * rewrite (dec_hdr_num f xcd 2 n r (fun n0 => MInt (Z.of_N n0))); [rewrite Hn; reflexivity|exact H3|apply dec_step_cd].
      * rewrite (dec_hdr_num f xce 4 n r (fun n0 => MInt (Z.of_N n0))); [rewrite Hn; reflexivity|exact H4|apply dec_step_ce].
      * rewrite (dec_hdr_num f xcf 8 n r (fun n0 => MInt (Z.of_N n0))); [rewrite Hn; reflexivity|exact Hn64|apply dec_step_cf].
  - destruct (Z.leb_spec (-32) z) as [H1|H1].
    + cbn [app dec]. rewrite b2n_n2b.
      assert (Hm : (Z.to_N (z + 256)) mod 256 = Z.to_N (z + 256)).
      { apply N.mod_small. apply N2Z.inj_lt. rewrite Z2N.id by lia. cbn. lia. }
      rewrite Hm.
      assert (B1 : 224 <= Z.to_N (z + 256)) by (apply N2Z.inj_le; rewrite Z2N.id by lia; cbn; lia).
      assert (B2 : Z.to_N (z + 256) < 256) by (apply N2Z.inj_lt; rewrite Z2N.id by lia; cbn; lia).
      tests_lia. rewrite Z2N.id by lia. f_equal. f_equal. lia.
    + destruct (Z.leb_spec (- 2 ^ 7) z) as [H2|H2];
        [|destruct (Z.leb_spec (- 2 ^ 15) z) as [H3|H3]; [|destruct (Z.leb_spec (- 2 ^ 31) z) as [H4|H4]]];
        cbn [app].
      * rewrite (dec_hdr_num f xd0 1 _ r (fun n0 => MInt (signed 1 n0))); [|apply N2Z.inj_lt; rewrite Z2N.id by lia; cbn; lia|apply dec_step_d0].
        f_equal. f_equal. exact (signed_back 1 z ltac:(lia) ltac:(cbn; lia)).
      * rewrite (dec_hdr_num f xd1 2 _ r (fun n0 => MInt (signed 2 n0))); [|apply N2Z.inj_lt; rewrite Z2N.id by lia; cbn; lia|apply dec_step_d1].
        f_equal. f_equal. exact (signed_back 2 z ltac:(lia) ltac:(cbn; lia)).
      * rewrite (dec_hdr_num f xd2 4 _ r (fun n0 => MInt (signed 4 n0))); [|apply N2Z.inj_lt; rewrite Z2N.id by lia; cbn; lia|apply dec_step_d2].
        f_equal. f_equal. exact (signed_back 4 z ltac:(lia) ltac:(cbn; lia)).
      * rewrite (dec_hdr_num f xd3 8 _ r (fun n0 => MInt (signed 8 n0))); [|apply N2Z.inj_lt; rewrite Z2N.id by lia; cbn; lia|apply dec_step_d3].
        f_equal. f_equal. exact (signed_back 8 z ltac:(lia) ltac:(cbn; lia)).
Qed.

Definition arr_k (f : nat) (n : N) (r : bytes) : dres mv :=
  match dec_list f n r with DOk l r' => DOk (MArr l) r' | DIncomplete => DIncomplete | DBad => DBad | DFuel => DFuel end.
Definition map_k (f : nat) (n : N) (r : bytes) : dres mv :=
  match dec_list f (2 * n) r with DOk l r' => DOk (MMap (pairup l)) r' | DIncomplete => DIncomplete | DBad => DBad | DFuel => DFuel end.

Ltac step_closed b v := cbn [dec]; change (b2n b) with v; tests_closed; reflexivity.

Lemma dec_step_c0 f r0 : dec (S f) (xc0 :: r0) = DOk MNil r0. Proof. step_closed xc0 192. Qed.
Lemma dec_step_c2 f r0 : dec (S f) (xc2 :: r0) = DOk (MBool false) r0. Proof. step_closed xc2 194. Qed.
Lemma dec_step_c3 f r0 : dec (S f) (xc3 :: r0) = DOk (MBool true) r0. Proof. step_closed xc3 195. Qed.
Lemma dec_step_c4 f r0 : dec (S f) (xc4 :: r0) = with_len 1 r0 (payload MBin). Proof. step_closed xc4 196. Qed.
Lemma dec_step_c5 f r0 : dec (S f) (xc5 :: r0) = with_len 2 r0 (payload MBin). Proof. step_closed xc5 197. Qed.
Lemma dec_step_c6 f r0 : dec (S f) (xc6 :: r0) = with_len 4 r0 (payload MBin). Proof. step_closed xc6 198. Qed.
Lemma dec_step_c7 f r0 : dec (S f) (xc7 :: r0) = with_len 1 r0 ext_payload. Proof. step_closed xc7 199. Qed.
Lemma dec_step_c8 f r0 : dec (S f) (xc8 :: r0) = with_len 2 r0 ext_payload. Proof. step_closed xc8 200. Qed.
Lemma dec_step_c9 f r0 : dec (S f) (xc9 :: r0) = with_len 4 r0 ext_payload. Proof. step_closed xc9 201. Qed.
Lemma dec_step_d4 f r0 : dec (S f) (xd4 :: r0) = ext_payload 1 r0. Proof. step_closed xd4 212. Qed.
Lemma dec_step_d5 f r0 : dec (S f) (xd5 :: r0) = ext_payload 2 r0. Proof. step_closed xd5 213. Qed.
Lemma dec_step_d6 f r0 : dec (S f) (xd6 :: r0) = ext_payload 4 r0. Proof. step_closed xd6 214. Qed.
Lemma dec_step_d7 f r0 : dec (S f) (xd7 :: r0) = ext_payload 8 r0. Proof. step_closed xd7 215. Qed.
Lemma dec_step_d8 f r0 : dec (S f) (xd8 :: r0) = ext_payload 16 r0. Proof. step_closed xd8 216. Qed.
Lemma dec_step_d9 f r0 : dec (S f) (xd9 :: r0) = with_len 1 r0 (payload MStr). Proof. step_closed xd9 217. Qed.
Lemma dec_step_da f r0 : dec (S f) (xda :: r0) = with_len 2 r0 (payload MStr). Proof. step_closed xda 218. Qed.
Lemma dec_step_db f r0 : dec (S f) (xdb :: r0) = with_len 4 r0 (payload MStr). Proof. step_closed xdb 219. Qed.
Lemma dec_step_dc f r0 : dec (S f) (xdc :: r0) = with_len 2 r0 (arr_k f). Proof. step_closed xdc 220. Qed.
Lemma dec_step_dd f r0 : dec (S f) (xdd :: r0) = with_len 4 r0 (arr_k f). Proof. step_closed xdd 221. Qed.
Lemma dec_step_de f r0 : dec (S f) (xde :: r0) = with_len 2 r0 (map_k f). Proof. step_closed xde 222. Qed.
Lemma dec_step_df f r0 : dec (S f) (xdf :: r0) = with_len 4 r0 (map_k f). Proof. step_closed xdf 223. Qed.

Lemma dec_step_fixstr f n r0 : n < 32 -> dec (S f) (n2b (160 + n) :: r0) = payload MStr n r0.
Proof. intros H. cbn [dec]. rewrite b2n_n2b, N.mod_small by lia. tests_lia. f_equal. lia. Qed.
Lemma dec_step_fixarr f n r0 : n < 16 -> dec (S f) (n2b (144 + n) :: r0) = arr_k f n r0.
Proof. intros H. cbn [dec]. rewrite b2n_n2b, N.mod_small by lia. tests_lia. unfold arr_k. replace (144 + n - 144) with n by lia. reflexivity. Qed.
Lemma dec_step_fixmap f n r0 : n < 16 -> dec (S f) (n2b (128 + n) :: r0) = map_k f n r0.
Proof. intros H. cbn [dec]. rewrite b2n_n2b, N.mod_small by lia. tests_lia. unfold map_k. replace (128 + n - 128) with n by lia. reflexivity. Qed.

Lemma with_len_be k n r (c : N -> bytes -> dres mv) : n < 256 ^ N.of_nat k -> with_len k (be k n ++ r) c = c n r.
Proof. intros H. unfold with_len. rewrite take_num_be by exact H. reflexivity. Qed.

Lemma payload_app mk d r : payload mk (blen d) (d ++ r) = DOk (mk d) r.
Proof. unfold payload. rewrite take_app. reflexivity. Qed.

Lemma ext_payload_app ty d r : ty < 256 -> ext_payload (blen d) (n2b ty :: d ++ r) = DOk (MExt ty d) r.
Proof. intros H. unfold ext_payload. rewrite take_app. rewrite b2n_n2b, N.mod_small by exact H. reflexivity. Qed.

Lemma dec_enc_str bs r f : mv_wf (MStr bs) = true -> dec (S f) (enc (MStr bs) ++ r) = DOk (MStr bs) r.
Proof.
  cbn [mv_wf enc]. intros H. apply N.ltb_lt in H. unfold str_hdr. rewrite <- app_assoc.
  destruct (N.ltb_spec (blen bs) 32) as [H1|H1]; [|destruct (N.ltb_spec (blen bs) (2 ^ 8)) as [H2|H2];
     [|destruct (N.ltb_spec (blen bs) (2 ^ 16)) as [H3|H3]]]; cbn [app].
  - rewrite dec_step_fixstr by exact H1. apply payload_app.
  - rewrite dec_step_d9, with_len_be by exact H2. apply payload_app.
  - rewrite dec_step_da, with_len_be by exact H3. apply payload_app.
  - rewrite dec_step_db, with_len_be by exact H. apply payload_app.
Qed.

Lemma dec_enc_bin bs r f : mv_wf (MBin bs) = true -> dec (S f) (enc (MBin bs) ++ r) = DOk (MBin bs) r.
Proof.
  cbn [mv_wf enc]. intros H. apply N.ltb_lt in H. unfold bin_hdr. rewrite <- app_assoc.
  destruct (N.ltb_spec (blen bs) (2 ^ 8)) as [H2|H2]; [|destruct (N.ltb_spec (blen bs) (2 ^ 16)) as [H3|H3]]; cbn [app].
  - rewrite dec_step_c4, with_len_be by exact H2. apply payload_app.
  - rewrite dec_step_c5, with_len_be by exact H3. apply payload_app.
  - rewrite dec_step_c6, with_len_be by exact H. apply payload_app.
Qed.

Lemma dec_enc_ext ty bs r f : mv_wf (MExt ty bs) = true -> dec (S f) (enc (MExt ty bs) ++ r) = DOk (MExt ty bs) r.
Proof.
  cbn [mv_wf enc]. intros H. apply andb_prop in H. destruct H as [Ht H]. apply N.ltb_lt in Ht. apply N.ltb_lt in H.
  unfold ext_hdr. rewrite <- app_assoc. cbn [app].
  destruct (N.eqb_spec (blen bs) 1) as [E|_]; [cbn [app]; rewrite dec_step_d4, <- E; apply ext_payload_app; exact Ht|].
  destruct (N.eqb_spec (blen bs) 2) as [E|_]; [cbn [app]; rewrite dec_step_d5, <- E; apply ext_payload_app; exact Ht|].
  destruct (N.eqb_spec (blen bs) 4) as [E|_]; [cbn [app]; rewrite dec_step_d6, <- E; apply ext_payload_app; exact Ht|].
  destruct (N.eqb_spec (blen bs) 8) as [E|_]; [cbn [app]; rewrite dec_step_d7, <- E; apply ext_payload_app; exact Ht|].
  destruct (N.eqb_spec (blen bs) 16) as [E|_]; [cbn [app]; rewrite dec_step_d8, <- E; apply ext_payload_app; exact Ht|].
  destruct (N.ltb_spec (blen bs) (2 ^ 8)) as [H2|H2]; [|destruct (N.ltb_spec (blen bs) (2 ^ 16)) as [H3|H3]]; cbn [app].
  - rewrite dec_step_c7, with_len_be by exact H2. apply ext_payload_app; exact Ht.
  - rewrite dec_step_c8, with_len_be by exact H3. apply ext_payload_app; exact Ht.
  - rewrite dec_step_c9, with_len_be by exact H. apply ext_payload_app; exact Ht.
Qed.

Lemma dec_enc_f64 n r f : mv_wf (MF64 n) = true -> dec (S f) (enc (MF64 n) ++ r) = DOk (MF64 n) r.
Proof.
  cbn [mv_wf enc app]. intros H. apply N.ltb_lt in H.
  rewrite (dec_hdr_num f xcb 8 n r MF64); [reflexivity|exact H|apply dec_step_cb].
Qed.

(* ---------- lists ---------- *)
Fixpoint fuel_list (l : list mv) : nat := match l with [] => O | x :: t => S (fuel_of x + fuel_list t) end.
Fixpoint fuel_pairs (l : list (mv * mv)) : nat :=
  match l with [] => O | (k, x) :: t => S (S (fuel_of k + fuel_of x + fuel_pairs t)) end.
Lemma fuel_of_arr l : fuel_of (MArr l) = S (S (fuel_list l)).
Proof. cbn [fuel_of]. do 2 f_equal. Qed.
Lemma fuel_of_map l : fuel_of (MMap l) = S (S (fuel_pairs l)).
Proof. cbn [fuel_of]. do 2 f_equal. Qed.

Definition dec_ok (x : mv) : Prop :=
  mv_wf x = true -> forall r f, (fuel_of x <= f)%nat -> dec f (enc x ++ r) = DOk x r.

Lemma dec_list_enc l : Forall dec_ok l -> forallb mv_wf l = true ->
  forall r f, (S (fuel_list l) <= f)%nat ->
  dec_list f (N.of_nat (List.length l)) (enc_list l ++ r) = DOk l r.
Proof.
  induction 1 as [|x t Hx _ IH]; intros Hwf r f Hf.
  - destruct f as [|f]; [lia|]. reflexivity.
  - cbn [forallb] in Hwf. apply andb_prop in Hwf. destruct Hwf as [Hwx Hwt].
    destruct f as [|f]; [cbn in Hf; lia|].
    cbn [dec_list List.length enc_list fuel_list] in *.
    rewrite (proj2 (N.eqb_neq _ 0)) by lia.
    rewrite <- app_assoc. rewrite (Hx Hwx) by lia.
    replace (N.of_nat (S (List.length t)) - 1) with (N.of_nat (List.length t)) by lia.
    rewrite (IH Hwt) by lia. reflexivity.
Qed.

Fixpoint flat_pairs (l : list (mv * mv)) : list mv := match l with [] => [] | (k, x) :: t => k :: x :: flat_pairs t end.
Lemma pairup_flat l : pairup (flat_pairs l) = l.
Proof. induction l as [|[k x] t IH]; [reflexivity|]. cbn. rewrite IH. reflexivity. Qed.
Lemma enc_list_flat l : enc_list (flat_pairs l) = enc_pairs l.
Proof. induction l as [|[k x] t IH]; [reflexivity|]. cbn [flat_pairs enc_list enc_pairs]. rewrite IH. reflexivity. Qed.
Lemma length_flat l : List.length (flat_pairs l) = (2 * List.length l)%nat.
Proof. induction l as [|[k x] t IH]; [reflexivity|]. cbn [flat_pairs List.length]. rewrite IH. lia. Qed.
Lemma fuel_list_flat l : fuel_list (flat_pairs l) = fuel_pairs l.
Proof. induction l as [|[k x] t IH]; [reflexivity|]. cbn [flat_pairs fuel_list fuel_pairs]. rewrite IH. lia. Qed.

Definition wf_pairs := fix go (l : list (mv * mv)) : bool :=
  match l with [] => true | (k, x) :: t => mv_wf k && mv_wf x && go t end.
Lemma wf_pairs_flat l : wf_pairs l = true -> forallb mv_wf (flat_pairs l) = true.
Proof.
  induction l as [|[k x] t IH]; [reflexivity|]. cbn [wf_pairs flat_pairs forallb]. intros H.
  apply andb_prop in H. destruct H as [H Ht]. apply andb_prop in H. destruct H as [Hk Hx].
  rewrite Hk, Hx, (IH Ht). reflexivity.
Qed.
Lemma ok_pairs_flat l : Forall (fun kx => dec_ok (fst kx) /\ dec_ok (snd kx)) l -> Forall dec_ok (flat_pairs l).
Proof. induction 1 as [|[k x] t [Hk Hx] _ IH]; cbn [flat_pairs]; [constructor|]. constructor; [exact Hk|constructor; [exact Hx|exact IH]]. Qed.

(* ---------- the round trip ---------- *)
Theorem dec_enc : forall v, dec_ok v.
Proof.
  induction v using mv_ind'; unfold dec_ok; intros Hwf r f Hf.
  - destruct f; [cbn in Hf; lia|]. apply dec_step_c0.
  - destruct f; [cbn in Hf; lia|]. destruct b; [apply dec_step_c3|apply dec_step_c2].
  - destruct f; [cbn in Hf; lia|]. cbn [enc]. apply dec_enc_int. exact Hwf.
  - destruct f; [cbn in Hf; lia|]. apply dec_enc_f64. exact Hwf.
  - destruct f; [cbn in Hf; lia|]. apply dec_enc_str. exact Hwf.
  - destruct f; [cbn in Hf; lia|]. apply dec_enc_bin. exact Hwf.
  - (* array *)
    rewrite fuel_of_arr in Hf. destruct f as [|f]; [lia|].
    cbn [mv_wf] in Hwf. apply andb_prop in Hwf. destruct Hwf as [Hlen Hall]. apply N.ltb_lt in Hlen.
    rewrite enc_arr. unfold arr_hdr. rewrite <- app_assoc.
    set (n := N.of_nat (List.length l)) in *.
    assert (K : arr_k f n (enc_list l ++ r) = DOk (MArr l) r).
    { unfold arr_k, n. rewrite (dec_list_enc l H Hall) by lia. reflexivity. }
    destruct (N.ltb_spec n 16) as [H1|H1]; [|destruct (N.ltb_spec n (2 ^ 16)) as [H2|H2]]; cbn [app].
    + rewrite dec_step_fixarr by exact H1. exact K.
    + rewrite dec_step_dc, with_len_be by exact H2. exact K.
    + rewrite dec_step_dd, with_len_be by exact Hlen. exact K.
  - (* map *)
    rewrite fuel_of_map in Hf. destruct f as [|f]; [lia|].
    cbn [mv_wf] in Hwf. apply andb_prop in Hwf. destruct Hwf as [Hlen Hall]. apply N.ltb_lt in Hlen.
    rewrite enc_map. unfold map_hdr. rewrite <- app_assoc.
    set (n := N.of_nat (List.length l)) in *.
    assert (K : map_k f n (enc_pairs l ++ r) = DOk (MMap l) r).
    { unfold map_k, n. rewrite <- enc_list_flat.
      replace (2 * N.of_nat (List.length l)) with (N.of_nat (List.length (flat_pairs l))) by (rewrite length_flat; lia).
      rewrite (dec_list_enc (flat_pairs l) (ok_pairs_flat l H) (wf_pairs_flat l Hall)) by (rewrite fuel_list_flat; lia).
      rewrite pairup_flat. reflexivity. }
    destruct (N.ltb_spec n 16) as [H1|H1]; [|destruct (N.ltb_spec n (2 ^ 16)) as [H2|H2]]; cbn [app].
    + rewrite dec_step_fixmap by exact H1. exact K.
    + rewrite dec_step_de, with_len_be by exact H2. exact K.
    + rewrite dec_step_df, with_len_be by exact Hlen. exact K.
  - destruct f; [cbn in Hf; lia|]. apply dec_enc_ext. exact Hwf.
Qed.

Corollary dec_enc_exact v r : mv_wf v = true -> dec (fuel_of v) (enc v ++ r) = DOk v r.
Proof. intros H. apply dec_enc; [exact H|lia]. Qed.

(* ---------- extension: a successful decode is not affected by what follows the value ---------- *)
Lemma take_ext n p s d r : take n p = Some (d, r) -> take n (p ++ s) = Some (d, r ++ s).
Proof.
  unfold take, blen. destruct (N.ltb_spec (N.of_nat (List.length p)) n) as [H|H]; [discriminate|].
  intros E. injection E as <- <-. rewrite app_length.
  destruct (N.ltb_spec (N.of_nat (List.length p + List.length s)) n) as [H'|H']; [lia|].
  assert (L : (N.to_nat n <= List.length p)%nat) by lia.
  rewrite firstn_app, skipn_app.
  replace (N.to_nat n - List.length p)%nat with O by lia. cbn [firstn skipn]. rewrite app_nil_r. reflexivity.
Qed.

Lemma take_num_ext k p s n r : take_num k p = Some (n, r) -> take_num k (p ++ s) = Some (n, r ++ s).
Proof.
  unfold take_num. destruct (take (N.of_nat k) p) as [[h r0]|] eqn:E; [|discriminate].
  intros H. injection H as <- <-. rewrite (take_ext _ _ s _ _ E). reflexivity.
Qed.

Lemma payload_ext mk n p s v r : payload mk n p = DOk v r -> payload mk n (p ++ s) = DOk v (r ++ s).
Proof.
  unfold payload. destruct (take n p) as [[d r0]|] eqn:E; [|discriminate].
  intros H. injection H as <- <-. rewrite (take_ext _ _ s _ _ E). reflexivity.
Qed.

Lemma ext_payload_ext n p s v r : ext_payload n p = DOk v r -> ext_payload n (p ++ s) = DOk v (r ++ s).
Proof.
  unfold ext_payload. destruct p as [|t p]; [discriminate|]. cbn [app].
  destruct (take n p) as [[d r0]|] eqn:E; [|discriminate].
  intros H. injection H as <- <-. rewrite (take_ext _ _ s _ _ E). reflexivity.
Qed.

Lemma with_len_ext k p s (c : N -> bytes -> dres mv) v r :
  (forall n p0 v0 r0, c n p0 = DOk v0 r0 -> c n (p0 ++ s) = DOk v0 (r0 ++ s)) ->
  with_len k p c = DOk v r -> with_len k (p ++ s) c = DOk v (r ++ s).
Proof.
  intros Hc. unfold with_len. destruct (take_num k p) as [[n r0]|] eqn:E; [|discriminate].
  rewrite (take_num_ext _ _ s _ _ E). apply Hc.
Qed.

Lemma dec_ext_both : forall f s,
  (forall p v r, dec f p = DOk v r -> dec f (p ++ s) = DOk v (r ++ s)) /\
  (forall n p l r, dec_list f n p = DOk l r -> dec_list f n (p ++ s) = DOk l (r ++ s)).
Proof.
  induction f as [|f IH]; intros s; split.
  - intros p v r H; discriminate H.
  - intros n p l r H; discriminate H.
  - destruct (IH s) as [IHd IHl].
    intros p v r H. destruct p as [|b p]; [discriminate|].
    assert (A : forall n0 p0 w r1, arr_k f n0 p0 = DOk w r1 -> arr_k f n0 (p0 ++ s) = DOk w (r1 ++ s)).
    { unfold arr_k. intros n0 p0 w r1 E. destruct (dec_list f n0 p0) as [l r'| | |] eqn:El; try discriminate.
      rewrite (IHl _ _ _ _ El). injection E as <- <-. reflexivity. }
    assert (M : forall n0 p0 w r1, map_k f n0 p0 = DOk w r1 -> map_k f n0 (p0 ++ s) = DOk w (r1 ++ s)).
    { unfold map_k. intros n0 p0 w r1 E. destruct (dec_list f (2 * n0) p0) as [l r'| | |] eqn:El; try discriminate.
      rewrite (IHl _ _ _ _ El). injection E as <- <-. reflexivity. }
    cbn [app]. cbn [dec] in H |- *. fold (arr_k f) in H |- *. fold (map_k f) in H |- *.
    repeat match type of H with
           | (if ?c then _ else _) = _ => destruct c
           end;
    first [ discriminate H
          | injection H as <- <-; reflexivity
          | apply A; exact H | apply M; exact H
          | apply payload_ext; exact H | apply ext_payload_ext; exact H
          | (eapply with_len_ext; [|exact H]); first [exact A | exact M | intros; apply payload_ext; assumption
                                                      | intros; apply ext_payload_ext; assumption]
          | (destruct (take_num _ p) as [[n0 r0]|] eqn:E; [|discriminate H]);
            rewrite (take_num_ext _ _ s _ _ E); injection H as <- <-; reflexivity ].
  - destruct (IH s) as [IHd IHl].
    intros n p l r H. cbn [dec_list] in H |- *. destruct (n =? 0).
    + injection H as <- <-. reflexivity.
    + destruct (dec f p) as [v r0| | |] eqn:Ed; try discriminate.
      rewrite (IHd _ _ _ Ed).
      destruct (dec_list f (n - 1) r0) as [vs r1| | |] eqn:El; try discriminate.
      rewrite (IHl _ _ _ _ El). injection H as <- <-. reflexivity.
Qed.

Lemma dec_extend f p s v r : dec f p = DOk v r -> dec f (p ++ s) = DOk v (r ++ s).
Proof. exact (proj1 (dec_ext_both f s) p v r). Qed.

(* ---------- prefix-freeness: a proper prefix of an encoding never decodes to a value ---------- *)
Theorem dec_prefix_free v p s f w r :
  mv_wf v = true -> enc v = p ++ s -> s <> [] -> dec f p = DOk w r -> False.
Proof.
  intros Hwf E Hs Hd.
  pose proof (dec_extend f p s w r Hd) as H1. rewrite <- E in H1.
  pose proof (dec_enc v Hwf [] (Nat.max f (fuel_of v)) (Nat.le_max_r _ _)) as H2. rewrite app_nil_r in H2.
  pose proof (dec_mono f (Nat.max f (fuel_of v)) _ _ _ H1 (Nat.le_max_l _ _)) as H3.
  rewrite H2 in H3. injection H3 as _ H3. destruct r; destruct s; try discriminate. apply Hs. reflexivity.
Qed.

(* what was consumed: a successful decode splits its input *)
Lemma take_split n p d r : take n p = Some (d, r) -> p = d ++ r.
Proof.
  unfold take. destruct (blen p <? n); [discriminate|]. intros H. injection H as <- <-.
  symmetry. apply firstn_skipn.
Qed.

(* ---------- the fuel unpackb uses (3 * length) always suffices ---------- *)
Lemma enc_nonempty v : (1 <= List.length (enc v))%nat.
Proof.
  destruct v; cbn [enc]; try (cbn; lia).
  - destruct b; cbn; lia.
  - unfold enc_int. repeat match goal with |- context [if ?c then _ else _] => destruct c end; cbn [List.length]; lia.
  - rewrite app_length. unfold str_hdr. repeat match goal with |- context [if ?c then _ else _] => destruct c end; cbn [List.length]; lia.
  - rewrite app_length. unfold bin_hdr. repeat match goal with |- context [if ?c then _ else _] => destruct c end; cbn [List.length]; lia.
  - rewrite app_length. unfold arr_hdr. repeat match goal with |- context [if ?c then _ else _] => destruct c end; cbn [List.length]; lia.
  - rewrite app_length. unfold map_hdr. repeat match goal with |- context [if ?c then _ else _] => destruct c end; cbn [List.length]; lia.
  - rewrite app_length. unfold ext_hdr. repeat match goal with |- context [if ?c then _ else _] => destruct c end; cbn [List.length]; lia.
Qed.

Lemma hdr_nonempty_arr n : (1 <= List.length (arr_hdr n))%nat.
Proof. unfold arr_hdr. repeat match goal with |- context [if ?c then _ else _] => destruct c end; cbn [List.length]; lia. Qed.
Lemma hdr_nonempty_map n : (1 <= List.length (map_hdr n))%nat.
Proof. unfold map_hdr. repeat match goal with |- context [if ?c then _ else _] => destruct c end; cbn [List.length]; lia. Qed.

Lemma fuel_of_bound : forall v, (fuel_of v + 1 <= 3 * List.length (enc v))%nat.
Proof.
  induction v using mv_ind'; try (pose proof (enc_nonempty MNil); cbn [fuel_of]; match goal with |- context [enc ?x] => pose proof (enc_nonempty x) end; lia).
  - assert (G : (fuel_list l <= 3 * List.length (enc_list l))%nat).
    { induction H as [|x t Hx _ IH]; [cbn; lia|]. cbn [fuel_list enc_list]. rewrite app_length. lia. }
    rewrite fuel_of_arr, enc_arr, app_length. pose proof (hdr_nonempty_arr (N.of_nat (List.length l))). lia.
  - assert (G : (fuel_pairs l <= 3 * List.length (enc_pairs l))%nat).
    { induction H as [|[k x] t [Hk Hx] _ IH]; [cbn; lia|]. cbn [fuel_pairs enc_pairs fst snd] in *. rewrite !app_length. lia. }
    rewrite fuel_of_map, enc_map, app_length. pose proof (hdr_nonempty_map (N.of_nat (List.length l))). lia.
Qed.

Theorem unpackb_enc v : mv_wf v = true -> unpackb (enc v) = UOk v.
Proof.
  intros H. unfold unpackb.
  pose proof (dec_enc v H [] (3 * List.length (enc v))%nat) as D. rewrite app_nil_r in D.
  rewrite D; [reflexivity|]. pose proof (fuel_of_bound v). lia.
Qed.

(* a truncated encoding is never accepted by unpackb *)
Theorem unpackb_truncated v p s : mv_wf v = true -> enc v = p ++ s -> s <> [] -> forall w, unpackb p <> UOk w.
Proof.
  intros Hwf E Hs w. unfold unpackb. destruct (dec (3 * List.length p) p) as [v0 r| | |] eqn:D; try discriminate.
  exfalso. exact (dec_prefix_free v p s _ v0 r Hwf E Hs D).
Qed.
