(* Proofs about model/Rdump.v. *)
From Coq Require Import List Bool String Ascii Arith NArith Lia ZifyBool.
Import ListNotations.
From FR Require Import Rdump.
Open Scope list_scope.

(* ------------------------------------------------------------------------------------------------ *)
(* islice = skipn then firstn, for every start / stop                                                 *)

Lemma islice_from_none : forall (A : Type) (l : list A) i start,
  islice_from i start None l = skipn (start - i) l.
Proof.
  intros A l. induction l as [|x t IH]; intros i start; simpl.
  - destruct (start - i); reflexivity.
  - rewrite andb_true_r. destruct (start <=? i) eqn:E.
    + apply Nat.leb_le in E. rewrite IH.
      replace (start - i) with 0 by lia. replace (start - S i) with 0 by lia. reflexivity.
    + apply Nat.leb_gt in E. rewrite IH.
      replace (start - i) with (S (start - S i)) by lia. reflexivity.
Qed.

Lemma islice_from_some : forall (A : Type) (l : list A) i start s,
  islice_from i start (Some s) l = firstn (s - Nat.max i start) (skipn (start - i) l).
Proof.
  intros A l. induction l as [|x t IH]; intros i start s; simpl.
  - destruct (start - i); destruct (s - Nat.max i start); reflexivity.
  - destruct (start <=? i) eqn:E.
    + apply Nat.leb_le in E. replace (start - i) with 0 by lia. simpl.
      destruct (i <? s) eqn:E2.
      * apply Nat.ltb_lt in E2. rewrite IH.
        replace (s - Nat.max i start) with (S (s - Nat.max (S i) start)) by lia.
        replace (start - S i) with 0 by lia. reflexivity.
      * apply Nat.ltb_ge in E2. rewrite IH.
        replace (s - Nat.max i start) with 0 by lia.
        replace (s - Nat.max (S i) start) with 0 by lia. reflexivity.
    + apply Nat.leb_gt in E. simpl. rewrite IH.
      replace (start - i) with (S (start - S i)) by lia.
      replace (Nat.max (S i) start) with (Nat.max i start) by lia. reflexivity.
Qed.

Lemma islice_spec : forall (A : Type) (l : list A) start stop,
  islice start stop l = firstn_opt (option_map (fun s => s - start) stop) (skipn start l).
Proof.
  intros A l start [s|]; unfold islice; simpl.
  - rewrite islice_from_some. replace (Nat.max 0 start) with start by lia.
    replace (start - 0) with start by lia. reflexivity.
  - rewrite islice_from_none. replace (start - 0) with start by lia. reflexivity.
Qed.

(* the stop expression of the code, with the limit the specification means *)
Lemma islice_stop_of : forall (A : Type) (l : list A) skip count,
  islice skip (stop_of_gen GuardTruthy StopCountPlusSkip skip count) l = firstn_opt (limit_of count) (skipn skip l).
Proof.
  intros A l skip count. rewrite islice_spec. destruct count as [[|c]|]; try reflexivity.
  unfold stop_of_gen, limit_of, option_map, firstn_opt. cbn [Nat.eqb negb].
  replace (S c + skip - skip) with (S c) by lia. reflexivity.
Qed.

(* ------------------------------------------------------------------------------------------------ *)
(* strings                                                                                             *)

Lemma append_assoc : forall a b c : string, ((a +++ b) +++ c) = (a +++ (b +++ c)).
Proof. induction a as [|x a IH]; intros; simpl; [reflexivity|now rewrite IH]. Qed.

Lemma no_char_app : forall c a b, no_char c (a +++ b) = no_char c a && no_char c b.
Proof. induction a as [|x a IH]; intros; simpl; [reflexivity|]. rewrite IH. now rewrite andb_assoc. Qed.

Lemma before_char_id : forall c s, no_char c s = true -> before_char c s = s.
Proof.
  induction s as [|x s IH]; simpl; intros H; [reflexivity|].
  apply andb_prop in H. destruct H as [H1 H2]. destruct (Ascii.eqb x c); [discriminate|]. now rewrite IH.
Qed.

Lemma after_char_none : forall c s, no_char c s = true -> after_char c s = None.
Proof.
  induction s as [|x s IH]; simpl; intros H; [reflexivity|].
  apply andb_prop in H. destruct H as [H1 H2]. destruct (Ascii.eqb x c); [discriminate|]. now apply IH.
Qed.

Lemma after_char_app_some : forall c a q b, after_char c a = Some q -> after_char c (a +++ b) = Some (q +++ b).
Proof.
  induction a as [|x a IH]; simpl; intros q b H; [discriminate|].
  destruct (Ascii.eqb x c); [now inversion H|]. now apply IH.
Qed.

Lemma after_char_app_sep : forall c a b, no_char c a = true -> after_char c (a +++ String c b) = Some b.
Proof.
  induction a as [|x a IH]; simpl; intros b H.
  - now rewrite Ascii.eqb_refl.
  - apply andb_prop in H. destruct H as [H1 H2]. destruct (Ascii.eqb x c); [discriminate|]. now apply IH.
Qed.

Lemma split_on_nonempty : forall c s, split_on c s <> [].
Proof.
  induction s as [|x s IH]; simpl; [discriminate|].
  destruct (Ascii.eqb x c); [discriminate|]. destruct (split_on c s); discriminate.
Qed.

Lemma split_on_clean : forall c s, no_char c s = true -> split_on c s = [s].
Proof.
  induction s as [|x s IH]; simpl; intros H; [reflexivity|].
  apply andb_prop in H. destruct H as [H1 H2]. destruct (Ascii.eqb x c); [discriminate|]. now rewrite IH.
Qed.

Lemma split_on_app_sep : forall c a b, split_on c (a +++ String c b) = split_on c a ++ split_on c b.
Proof.
  induction a as [|x a IH]; intros b; simpl.
  - now rewrite Ascii.eqb_refl.
  - destruct (Ascii.eqb x c).
    + now rewrite IH.
    + rewrite IH. destruct (split_on c a) as [|h r] eqn:E.
      * exfalso. now apply (split_on_nonempty c a).
      * reflexivity.
Qed.

Lemma split_join : forall c items,
  Forall (fun i => no_char c i = true) items -> items <> [] ->
  split_on c (join_with (String c EmptyString) items) = items.
Proof.
  induction items as [|x t IH]; intros HF HN; [congruence|].
  inversion HF as [|? ? Hx Ht]; subst.
  destruct t as [|y t'].
  - simpl. now apply split_on_clean.
  - change (join_with (String c EmptyString) (x :: y :: t'))
      with (x +++ String c EmptyString +++ join_with (String c EmptyString) (y :: t')).
    change (String c EmptyString +++ join_with (String c EmptyString) (y :: t'))
      with (String c (join_with (String c EmptyString) (y :: t'))).
    rewrite split_on_app_sep, IH; [|assumption|discriminate].
    now rewrite split_on_clean.
Qed.

(* no character that has a meaning in a URI survives quote_plus *)
Definition clean (s : string) : bool := no_char "&" s && no_char "#" s && no_char "?" s.

Lemma clean_app : forall a b, clean (a +++ b) = clean a && clean b.
Proof.
  intros. unfold clean. rewrite !no_char_app.
  destruct (no_char "&" a), (no_char "#" a), (no_char "?" a), (no_char "&" b), (no_char "#" b); reflexivity.
Qed.

Lemma quote_char_clean : forall a, clean (quote_char a) = true.
Proof. intros [[] [] [] [] [] [] [] []]; vm_compute; reflexivity. Qed.

Lemma quote_plus_clean : forall s, clean (quote_plus s) = true.
Proof. induction s as [|a s IH]; simpl; [reflexivity|]. now rewrite clean_app, quote_char_clean, IH. Qed.

Lemma item_clean : forall kv, clean (item_of kv) = true.
Proof. intros kv. unfold item_of. now rewrite !clean_app, !quote_plus_clean. Qed.

Lemma clean_amp : forall s, clean s = true -> no_char "&" s = true.
Proof. unfold clean. intros s H. apply andb_prop in H. destruct H as [H _]. apply andb_prop in H. tauto. Qed.
Lemma clean_hash : forall s, clean s = true -> no_char "#" s = true.
Proof. unfold clean. intros s H. apply andb_prop in H. destruct H as [H _]. apply andb_prop in H. tauto. Qed.
Lemma clean_qm : forall s, clean s = true -> no_char "?" s = true.
Proof. unfold clean. intros s H. apply andb_prop in H. tauto. Qed.

Lemma join_no_hash : forall items, Forall (fun i => clean i = true) items -> no_char "#" (join_with "&" items) = true.
Proof.
  induction items as [|x t IH]; intros HF; [reflexivity|].
  inversion HF as [|? ? Hx Ht]; subst. destruct t as [|y t'].
  - simpl. now apply clean_hash.
  - change (join_with "&" (x :: y :: t')) with (x +++ "&" +++ join_with "&" (y :: t')).
    rewrite !no_char_app, (clean_hash _ Hx), (IH Ht). reflexivity.
Qed.

Lemma urlencode_items : forall ps, ps <> [] -> split_on "&" (urlencode ps) = map item_of ps.
Proof.
  intros ps HN. unfold urlencode. apply split_join.
  - apply Forall_forall. intros i Hi. apply in_map_iff in Hi. destruct Hi as [kv [<- _]].
    apply clean_amp, item_clean.
  - destruct ps; [congruence|discriminate].
Qed.

Lemma urlencode_no_hash : forall ps, no_char "#" (urlencode ps) = true.
Proof.
  intros ps. unfold urlencode. apply join_no_hash. apply Forall_forall. intros i Hi.
  apply in_map_iff in Hi. destruct Hi as [kv [<- _]]. apply item_clean.
Qed.

(* the joining rule: every item of the query ends up as an item of the URI's query *)
Lemma join_paren_carries : forall base ps kv,
  uri_ok base = true -> In kv ps ->
  In (item_of kv) (query_items (join_query JoinParen base (urlencode ps))).
Proof.
  intros base ps kv Hok Hin. unfold uri_ok in Hok. apply andb_prop in Hok. destruct Hok as [Hh Hq].
  assert (HN : ps <> []) by (destruct ps; [inversion Hin|discriminate]).
  assert (Hitems : In (item_of kv) (split_on "&" (urlencode ps))).
  { rewrite urlencode_items by assumption. now apply in_map. }
  unfold join_query, query_items. destruct (has_query base) eqn:HQ.
  - (* base has a query: "&" is appended *)
    unfold has_query, query_of in HQ. rewrite (before_char_id _ _ Hh) in HQ.
    destruct (after_char "?" base) as [q|] eqn:EA; [|discriminate].
    unfold query_of.
    rewrite before_char_id.
    2:{ rewrite !no_char_app, Hh, urlencode_no_hash. reflexivity. }
    rewrite (after_char_app_some _ _ _ _ EA).
    change ("&" +++ urlencode ps) with (String "&" (urlencode ps)).
    rewrite split_on_app_sep. apply in_or_app. now right.
  - (* no '?' in base at all: "?" is appended *)
    rewrite ?HQ in Hq. rewrite orb_false_r in Hq.
    unfold query_of.
    rewrite before_char_id.
    2:{ rewrite !no_char_app, Hh, urlencode_no_hash. reflexivity. }
    change ("?" +++ urlencode ps) with (String "?" (urlencode ps)).
    rewrite after_char_app_sep by assumption. assumption.
Qed.

Lemma lookup_in : forall k tbl v, lookup k tbl = Some v -> In v (map snd tbl).
Proof.
  induction tbl as [|[k' v'] t IH]; simpl; intros v H; [discriminate|].
  destruct (String.eqb k' k); [inversion H; now left|right; now apply IH].
Qed.

Lemma mode_base_ok : forall F m, facts_uri_ok F = true -> uri_ok (mode_base F m) = true.
Proof.
  intros F m H. unfold facts_uri_ok in H. apply andb_prop in H. destruct H as [H Htbl].
  apply andb_prop in H. destruct H as [_ Hdef].
  unfold mode_base. destruct m as [m|]; [|assumption].
  destruct (lookup m (f_mode_to_uri F)) as [u|] eqn:E; [|assumption].
  apply lookup_in in E. apply in_map_iff in E. destruct E as [p [<- Hp]].
  rewrite forallb_forall in Htbl. now apply Htbl.
Qed.

Lemma uri_carries_query : forall F o kv,
  facts_uri_ok F = true -> truthy (o_writer o) = false -> In kv (live_params F o) ->
  In (item_of kv) (query_items (mode_uri F o)).
Proof.
  intros F o kv HF Hw Hin. unfold mode_uri. rewrite Hw.
  assert (HJ : f_join F = JoinParen).
  { unfold facts_uri_ok in HF. destruct (f_join F); [reflexivity|discriminate]. }
  rewrite HJ. apply join_paren_carries; [now apply mode_base_ok|assumption].
Qed.

(* with -w the URI is the given one, untouched *)
Lemma writer_uri_verbatim : forall F o w, o_writer o = Some w -> str_empty w = false -> mode_uri F o = w.
Proof. intros F o w H E. unfold mode_uri, truthy. now rewrite H, E. Qed.

(* ------------------------------------------------------------------------------------------------ *)
(* split                                                                                               *)

Lemma lookup_dict_set_same : forall d k v, lookup k (dict_set d k v) = Some v.
Proof.
  induction d as [|[k' v'] t IH]; intros k v; simpl.
  - now rewrite String.eqb_refl.
  - destruct (String.eqb k' k) eqn:E; simpl; [now rewrite String.eqb_refl|now rewrite E].
Qed.

Lemma lookup_dict_set_other : forall d k v k', String.eqb k k' = false -> lookup k' (dict_set d k v) = lookup k' d.
Proof.
  induction d as [|[k0 v0] t IH]; intros k v k' H; simpl.
  - now rewrite H.
  - destruct (String.eqb k0 k) eqn:E; simpl.
    + apply String.eqb_eq in E. subst k0. now rewrite H.
    + destruct (String.eqb k0 k'); [reflexivity|now apply IH].
Qed.

Lemma split_params : forall F uri n len,
  String.eqb (fst (f_split_keys F)) (snd (f_split_keys F)) = false ->
  let p := split_parts F uri n len in
  let u := (if has_sub "://" uri then f_split_scheme F else f_split_noscheme F) +++ uri in
  split_uri F uri n len = (fst p +++ "?" +++ urlencode (snd p))
  /\ fst p = target_of u
  /\ lookup (fst (f_split_keys F)) (snd p) = Some (dec n)
  /\ lookup (snd (f_split_keys F)) (snd p) = Some (dec len)
  /\ (forall k, String.eqb (fst (f_split_keys F)) k = false -> String.eqb (snd (f_split_keys F)) k = false ->
        lookup k (snd p) = lookup k (dict_of (parse_qsl (query_items u)))).
Proof.
  intros F uri n len Hk. simpl. repeat split.
  - rewrite lookup_dict_set_other by (rewrite String.eqb_sym; assumption). apply lookup_dict_set_same.
  - apply lookup_dict_set_same.
  - intros k H1 H2. rewrite lookup_dict_set_other by assumption. now rewrite lookup_dict_set_other by assumption.
Qed.

(* a writer URI without query and fragment: the split URI is prefix + URI + "?count=N&suffix-length=L" *)
Lemma split_plain : forall F uri n len,
  String.eqb (fst (f_split_keys F)) (snd (f_split_keys F)) = false ->
  no_char "?" uri = true -> no_char "#" uri = true ->
  no_char "?" (f_split_scheme F) = true -> no_char "#" (f_split_scheme F) = true ->
  no_char "?" (f_split_noscheme F) = true -> no_char "#" (f_split_noscheme F) = true ->
  split_uri F uri n len =
    ((if has_sub "://" uri then f_split_scheme F else f_split_noscheme F) +++ uri +++ "?"
     +++ urlencode [(fst (f_split_keys F), dec n); (snd (f_split_keys F), dec len)]).
Proof.
  intros F uri n len Hk Hq Hh Hsq Hsh Hnq Hnh. unfold split_uri, split_parts. cbn [fst snd].
  set (pfx := if has_sub "://" uri then f_split_scheme F else f_split_noscheme F).
  assert (Hpq : no_char "?" (pfx +++ uri) = true).
  { rewrite no_char_app, Hq. unfold pfx. destruct (has_sub "://" uri); [now rewrite Hsq|now rewrite Hnq]. }
  assert (Hph : no_char "#" (pfx +++ uri) = true).
  { rewrite no_char_app, Hh. unfold pfx. destruct (has_sub "://" uri); [now rewrite Hsh|now rewrite Hnh]. }
  unfold target_of, query_items, query_of.
  rewrite (before_char_id _ _ Hph), (before_char_id _ _ Hpq), (after_char_none _ _ Hpq).
  simpl. rewrite Hk. rewrite append_assoc. reflexivity.
Qed.

Lemma final_uri_cases : forall F o,
  final_uri F o =
    match split_on_n o with
    | None => Some (mode_uri F o)
    | Some n => if truthy (o_writer o) then Some (split_uri F (mode_uri F o) n (o_suffix_length o)) else None
    end.
Proof. intros. unfold final_uri. destruct (split_on_n o); reflexivity. Qed.

(* ------------------------------------------------------------------------------------------------ *)
(* record_stream                                                                                       *)

Section Records.
Variable R : Type.

Lemma handler_continue_all : forall F (s : source R),
  handlers_continue (f_handlers F) = true -> after_source R F s = Continue.
Proof.
  intros F s H. unfold after_source. destruct (failure s) as [k|]; [|reflexivity].
  unfold handlers_continue in H.
  destruct (handler_for (f_handlers F) ExIO) eqn:E1; try discriminate.
  destruct (handler_for (f_handlers F) ExOther) eqn:E2; try discriminate.
  destruct k; simpl; rewrite ?E1, ?E2; reflexivity.
Qed.

Lemma filter_concat : forall (sel : R -> bool) (ls : list (list R)),
  filter sel (List.concat ls) = List.concat (map (filter sel) ls).
Proof. induction ls as [|l t IH]; simpl; [reflexivity|]. now rewrite filter_app, IH. Qed.

Lemma record_stream_spec : forall F sel (srcs : list (source R)),
  handlers_continue (f_handlers F) = true -> f_yield_per_record F = true ->
  record_stream R F sel srcs = (filter sel (List.concat (map intact_prefix srcs)), false).
Proof.
  intros F sel srcs HH HY. induction srcs as [|s t IH]; simpl; [reflexivity|].
  rewrite (handler_continue_all F s HH), HY, IH. simpl. now rewrite filter_app.
Qed.

(* a failing source contributes its intact prefix, the sources before and after it are read completely *)
Lemma failure_isolated : forall F sel (before after : list (source R)) (s : source R),
  handlers_continue (f_handlers F) = true -> f_yield_per_record F = true ->
  record_stream R F sel (before ++ s :: after) =
    (fst (record_stream R F sel before) ++ filter sel (intact_prefix s) ++ fst (record_stream R F sel after), false).
Proof.
  intros F sel before after s HH HY. rewrite !record_stream_spec by assumption. simpl.
  rewrite map_app, concat_app. simpl. now rewrite !filter_app.
Qed.

Definition heal (s : source R) : source R := {| intact_prefix := intact_prefix s; failure := None |}.

Lemma failure_invisible : forall F sel (srcs : list (source R)),
  handlers_continue (f_handlers F) = true -> f_yield_per_record F = true ->
  record_stream R F sel srcs = record_stream R F sel (map heal srcs).
Proof.
  intros F sel srcs HH HY. rewrite !record_stream_spec by assumption. rewrite map_map. reflexivity.
Qed.

(* ------------------------------------------------------------------------------------------------ *)
(* the pipeline                                                                                        *)

Variable sel_compiled sel_interpreted : R -> bool.
Variable set_field : string -> string -> R -> R.
Variable rewrite : list string -> list string -> option string -> R -> R.
Variable expand : R -> list R.
(* RecordFieldRewriter.rewrite: `if not self.fields and not self.exclude and not self.expression: return record` *)
Hypothesis rewrite_nothing : forall e r, truthy e = false -> rewrite [] [] e r = r.

Lemma facts_inv : forall F, facts_records_ok F = true ->
  f_stop_guard F = GuardTruthy /\ f_stop_expr F = StopCountPlusSkip /\ f_order F = OverrideThenRewrite
  /\ f_compile_flag F = FlagNotNoCompile /\ f_multi F = MultiExpandOnly
  /\ handlers_continue (f_handlers F) = true /\ f_yield_per_record F = true /\ f_finally_exit F = true
  /\ (cond_mem CFields (f_rewriter_cond F) = true /\ cond_mem CExclude (f_rewriter_cond F) = true
      /\ cond_mem CExpr (f_rewriter_cond F) = true)
  /\ f_override_guards F = [("_source", GuardNotNone); ("_classification", GuardNotNone)]%string
  /\ f_default_skip F = 0.
Proof.
  intros F H. unfold facts_records_ok in H.
  repeat (apply andb_prop in H; let H' := fresh "H" in destruct H as [H H']).
  destruct (f_stop_guard F), (f_stop_expr F), (f_order F), (f_compile_flag F), (f_multi F); try discriminate.
  repeat split; try assumption; try reflexivity.
  - destruct (f_override_guards F) as [|[a [|]] [|[b [|]] [|]]]; try discriminate.
    apply andb_prop in H1. destruct H1 as [Ha Hb]. apply String.eqb_eq in Ha, Hb. now subst.
  - now apply Nat.eqb_eq.
Qed.

Lemma cond_mem_exists : forall o c l, cond_mem c l = true -> cond_holds o c = true -> existsb (cond_holds o) l = true.
Proof.
  intros o c l H Hc. unfold cond_mem in H. apply existsb_exists in H. destruct H as [d [Hd E]].
  apply existsb_exists. exists d. split; [assumption|]. destruct c, d; try discriminate; assumption.
Qed.

Lemma rewrite_gen_spec : forall F o r,
  cond_mem CFields (f_rewriter_cond F) = true -> cond_mem CExclude (f_rewriter_cond F) = true ->
  cond_mem CExpr (f_rewriter_cond F) = true ->
  rewrite_gen R rewrite F o r = project R rewrite o r.
Proof.
  intros F o r H1 H2 H3. unfold rewrite_gen, project.
  destruct (existsb (cond_holds o) (f_rewriter_cond F)) eqn:E; [reflexivity|].
  assert (A1 : cond_holds o CFields = false).
  { destruct (cond_holds o CFields) eqn:X; [|reflexivity]. now rewrite (cond_mem_exists o _ _ H1 X) in E. }
  assert (A2 : cond_holds o CExclude = false).
  { destruct (cond_holds o CExclude) eqn:X; [|reflexivity]. now rewrite (cond_mem_exists o _ _ H2 X) in E. }
  assert (A3 : cond_holds o CExpr = false).
  { destruct (cond_holds o CExpr) eqn:X; [|reflexivity]. now rewrite (cond_mem_exists o _ _ H3 X) in E. }
  simpl in A1, A2, A3. apply negb_false_iff in A1, A2.
  unfold comma_list. rewrite A1, A2. symmetry. now apply rewrite_nothing.
Qed.

Lemma pipeline_gen_spec : forall F o r, facts_records_ok F = true ->
  pipeline_gen R set_field rewrite F o r = pipeline R set_field rewrite o r.
Proof.
  intros F o r HF. destruct (facts_inv F HF) as (_ & _ & HO & _ & _ & _ & _ & _ & (C1 & C2 & C3) & HG & _).
  unfold pipeline_gen, pipeline. rewrite HO, HG, rewrite_gen_spec by assumption.
  reflexivity.
Qed.

Definition spec_sel (o : opts) : R -> bool := if o_no_compile o then sel_interpreted else sel_compiled.

Lemma selected_spec : forall F o (srcs : list (source R)), facts_records_ok F = true ->
  selected R sel_compiled sel_interpreted set_field rewrite F o srcs =
  map (pipeline R set_field rewrite o)
      (firstn_opt (limit_of (o_count o))
         (skipn (o_skip o) (filter (spec_sel o) (List.concat (map intact_prefix srcs))))).
Proof.
  intros F o srcs HF. destruct (facts_inv F HF) as (G & E & _ & CF & _ & HH & HY & _).
  unfold selected. rewrite G, E, record_stream_spec by assumption. simpl fst.
  rewrite islice_stop_of.
  assert (S : sel_of R sel_compiled sel_interpreted F o = spec_sel o).
  { unfold sel_of, uses_compiled, spec_sel. rewrite CF. destruct (o_no_compile o); reflexivity. }
  rewrite S. apply map_ext. intros r. now apply pipeline_gen_spec.
Qed.

Lemma written_spec : forall F o (srcs : list (source R)), facts_records_ok F = true ->
  written R sel_compiled sel_interpreted set_field rewrite expand F o srcs =
  if o_list o then []
  else let l := selected R sel_compiled sel_interpreted set_field rewrite F o srcs in
       if o_multi o then flat_map expand l else l.
Proof.
  intros F o srcs HF. destruct (facts_inv F HF) as (_ & _ & _ & _ & HM & _).
  unfold written. destruct (o_list o); [reflexivity|]. unfold write_items. rewrite HM.
  destruct (o_multi o); [reflexivity|].
  induction (selected R sel_compiled sel_interpreted set_field rewrite F o srcs) as [|x t IH]; simpl; [reflexivity|now rewrite IH].
Qed.

Lemma filter_all : forall (f : R -> bool) l, (forall r, f r = true) -> filter f l = l.
Proof. intros f l H. induction l as [|x t IH]; simpl; [reflexivity|]. now rewrite H, IH. Qed.

Lemma map_id_ext : forall (f : R -> R) l, (forall r, f r = r) -> map f l = l.
Proof. intros f l H. induction l as [|x t IH]; simpl; [reflexivity|]. now rewrite H, IH. Qed.

(* no options: the identity *)
Lemma identity : forall F (srcs : list (source R)), facts_records_ok F = true ->
  (forall r, sel_compiled r = true) ->
  written R sel_compiled sel_interpreted set_field rewrite expand F (default_opts F) srcs = List.concat (map intact_prefix srcs).
Proof.
  intros F srcs HF HS. rewrite written_spec by assumption. simpl.
  rewrite selected_spec by assumption. simpl.
  destruct (facts_inv F HF) as (_ & _ & _ & _ & _ & _ & _ & _ & _ & _ & HK). rewrite HK. simpl.
  unfold spec_sel. simpl. rewrite filter_all by assumption.
  apply map_id_ext. intros r. unfold pipeline, project, override. simpl. now apply rewrite_nothing.
Qed.

Lemma count_zero_unlimited : forall F o (srcs : list (source R)), facts_records_ok F = true ->
  selected R sel_compiled sel_interpreted set_field rewrite F (set_count o (Some 0)) srcs =
  selected R sel_compiled sel_interpreted set_field rewrite F (set_count o None) srcs.
Proof. intros F o srcs HF. rewrite !selected_spec by assumption. reflexivity. Qed.

(* the writes do not depend on the options that only the URI side reads *)
Lemma mode_independent : forall F o w m f sp sl (srcs : list (source R)),
  written R sel_compiled sel_interpreted set_field rewrite expand F (set_output o w m f sp sl) srcs =
  written R sel_compiled sel_interpreted set_field rewrite expand F o srcs.
Proof. intros. destruct o. reflexivity. Qed.

(* -n: which engine, and that the output is the same when the engines agree *)
Lemma engine_flag : forall F o, facts_records_ok F = true -> uses_compiled F o = negb (o_no_compile o).
Proof.
  intros F o HF. destruct (facts_inv F HF) as (_ & _ & _ & CF & _). unfold uses_compiled. now rewrite CF.
Qed.

Lemma engine_independent : forall F o b (srcs : list (source R)), facts_records_ok F = true ->
  (forall r, sel_compiled r = sel_interpreted r) ->
  selected R sel_compiled sel_interpreted set_field rewrite F (set_no_compile o b) srcs =
  selected R sel_compiled sel_interpreted set_field rewrite F o srcs.
Proof.
  intros F o b srcs HF HA. rewrite !selected_spec by assumption. simpl.
  assert (E : forall o', filter (spec_sel o') (List.concat (map intact_prefix srcs))
                         = filter sel_compiled (List.concat (map intact_prefix srcs))).
  { intros o'. apply filter_ext. intros r. unfold spec_sel. destruct (o_no_compile o'); [symmetry; apply HA|reflexivity]. }
  rewrite (E (set_no_compile o b)), (E o). reflexivity.
Qed.

Lemma ok_prefix_all : forall (fails : R -> bool) l, existsb fails l = false -> ok_prefix R fails l = l.
Proof.
  induction l as [|x t IH]; simpl; intros H; [reflexivity|].
  apply orb_false_iff in H. destruct H as [H1 H2]. now rewrite H1, IH.
Qed.

(* an exception in the middle of the run: everything written before it is in the output *)
Lemma abort_flushed : forall F fails o (srcs : list (source R)), facts_records_ok F = true -> o_list o = false ->
  output_after_abort R sel_compiled sel_interpreted set_field rewrite expand F fails o srcs =
  flat_map (write_items R expand F o)
           (ok_prefix R fails (selected R sel_compiled sel_interpreted set_field rewrite F o srcs)).
Proof.
  intros F fails o srcs HF HL. destruct (facts_inv F HF) as (_ & _ & _ & _ & _ & _ & _ & HFin & _).
  unfold output_after_abort. rewrite HFin.
  destruct (existsb fails _) eqn:E; [reflexivity|].
  rewrite ok_prefix_all by assumption. unfold written. now rewrite HL.
Qed.

End Records.

(* ------------------------------------------------------------------------------------------------ *)
(* --multi-timestamp on concrete records                                                               *)

Lemma expanded_meta_all : forall copied now m, meta_all_copied copied = true -> expanded_meta copied now m = m.
Proof.
  intros copied now [a b c] H. unfold meta_all_copied in H.
  apply andb_prop in H. destruct H as [H H3]. apply andb_prop in H. destruct H as [H1 H2].
  unfold expanded_meta. simpl. now rewrite H1, H2, H3.
Qed.

(* every expanded record keeps the metadata of the record *)
Lemma expand_full : forall copied now r, meta_all_copied copied = true -> expand_impl copied now r = expand_spec r.
Proof.
  intros copied now r H. unfold expand_impl, expand_spec. now rewrite expanded_meta_all by assumption.
Qed.

Lemma expand_same_fields : forall copied now r,
  map strip_meta (expand_impl copied now r) = map strip_meta (expand_spec r).
Proof.
  intros copied now r. unfold expand_impl, expand_spec. destruct (filter cf_dt (c_fields r)) as [|d t]; [reflexivity|].
  rewrite !map_map. reflexivity.
Qed.

Lemma expand_keeps_fields : forall copied now r r' f,
  In r' (expand_impl copied now r) -> In f (c_fields r) -> is_ts_name (cf_name f) = false -> In f (c_fields r').
Proof.
  intros copied now r r' f Hr Hf Hn. unfold expand_impl in Hr.
  destruct (filter cf_dt (c_fields r)) as [|d t].
  - destruct Hr as [<-|[]]. assumption.
  - apply in_map_iff in Hr. destruct Hr as [g [<- _]]. simpl. right. right.
    apply filter_In. split; [assumption|now rewrite Hn].
Qed.

Lemma expand_count : forall copied now r,
  List.length (expand_impl copied now r) = Nat.max 1 (List.length (filter cf_dt (c_fields r))).
Proof.
  intros copied now r. unfold expand_impl. destruct (filter cf_dt (c_fields r)) as [|d t] eqn:E; [reflexivity|].
  rewrite map_length. simpl. reflexivity.
Qed.

Lemma expand_spec_meta : forall r r', In r' (expand_spec r) -> c_meta r' = c_meta r.
Proof.
  intros r r' H. unfold expand_spec in H. destruct (filter cf_dt (c_fields r)) as [|d t].
  - destruct H as [<-|[]]. reflexivity.
  - apply in_map_iff in H. destruct H as [g [<- _]]. reflexivity.
Qed.

Lemma multi_timestamp_full : forall copied, meta_all_copied copied = true -> forall now r,
  expand_impl copied now r = expand_spec r
  /\ List.length (expand_spec r) = Nat.max 1 (List.length (filter cf_dt (c_fields r)))
  /\ (forall r' f, In r' (expand_spec r) -> In f (c_fields r) -> is_ts_name (cf_name f) = false -> In f (c_fields r'))
  /\ (forall r', In r' (expand_spec r) -> c_meta r' = c_meta r).
Proof.
  intros copied H now r. pose proof (expand_full copied now r H) as E. repeat split.
  - exact E.
  - rewrite <- E. apply expand_count.
  - intros r' f. rewrite <- E. apply expand_keeps_fields.
  - apply expand_spec_meta.
Qed.
